----------------------------- MODULE BatchGate -----------------------------
(***************************************************************************)
(* The batch gate of the stdio transport (C13):                            *)
(*   chuk_mcp/transports/stdio/stdio_client.py  _process_message_data      *)
(*   chuk_mcp/protocol/features/batching.py     BatchProcessor             *)
(* The negotiated version may change at any time (set_protocol_version).   *)
(* A batch array from the child is delivered member by member (valid       *)
(* members in order, invalid members dropped alone) when the version       *)
(* supports batching, and otherwise answered to the child with exactly one *)
(* -32600 error while none of its members is delivered.                    *)
(***************************************************************************)
EXTENDS Versioning, FiniteSets

CONSTANTS VersionChoices,   \* triples the environment may negotiate
          MaxBatch, MaxSteps

ValidKinds == {"resp", "notif", "req"}
InvalidKinds == {"invScalar", "invString", "invBoth", "invNested"}
Kinds == ValidKinds \cup InvalidKinds

VARIABLES negotiated, delivered, notified, toChild, n, steps
gvars == <<negotiated, delivered, notified, toChild, n, steps>>

GInit == negotiated = NoVersion /\ delivered = <<>> /\ notified = <<>> /\ toChild = <<>> /\ n = 0 /\ steps = 0 /\ v = Cutoff

\* members: sequence of kinds; member i of this batch carries marker n + i
Tag(ms, i) == <<ms[i], n + i>>
ValidTags(ms) == LET idx == {i \in DOMAIN ms : ms[i] \in ValidKinds}
                     F[k \in 0..Len(ms)] == IF k = 0 THEN <<>> ELSE IF k \in idx THEN Append(F[k - 1], Tag(ms, k)) ELSE F[k - 1]
                 IN F[Len(ms)]
RECURSIVE OnlyNotifs(_)
OnlyNotifs(s) == IF s = <<>> THEN <<>>
                 ELSE IF Head(s)[1] = "notif" THEN <<Head(s)>> \o OnlyNotifs(Tail(s)) ELSE OnlyNotifs(Tail(s))

SetVersion(w) ==
  /\ negotiated' = w /\ steps' = steps + 1
  /\ UNCHANGED <<delivered, notified, toChild, n, v>>

RecvBatch(ms) ==
  /\ steps' = steps + 1 /\ n' = n + Len(ms)
  /\ IF SupportsOpt(negotiated)
     THEN /\ delivered' = delivered \o ValidTags(ms)
          /\ notified' = notified \o OnlyNotifs(ValidTags(ms))
          /\ UNCHANGED toChild
     ELSE /\ toChild' = Append(toChild, 32600)
          /\ UNCHANGED <<delivered, notified>>
  /\ UNCHANGED <<negotiated, v>>

RecvSingle(k) ==
  /\ steps' = steps + 1 /\ n' = n + 1
  /\ delivered' = IF k \in ValidKinds THEN Append(delivered, <<k, n + 1>>) ELSE delivered
  /\ notified' = IF k = "notif" THEN Append(notified, <<k, n + 1>>) ELSE notified
  /\ UNCHANGED <<negotiated, toChild, v>>

BatchesUpTo(k) == UNION {[1..j -> Kinds] : j \in 0..k}
GNext ==
  /\ steps < MaxSteps
  /\ \/ \E w \in VersionChoices : SetVersion(w)
     \/ \E ms \in BatchesUpTo(MaxBatch) : RecvBatch(ms)
     \/ \E k \in Kinds \ {"invNested"} : RecvSingle(k)   \* a top-level array IS a batch
GSpec == GInit /\ [][GNext]_<<gvars, v>>

\* action properties: the statement
RejectedWhole ==
  [][\A ms \in BatchesUpTo(MaxBatch) : RecvBatch(ms) /\ ~SupportsOpt(negotiated) =>
        toChild' = Append(toChild, 32600) /\ delivered' = delivered]_<<gvars, v>>
AcceptedMembers ==
  [][\A ms \in BatchesUpTo(MaxBatch) : RecvBatch(ms) /\ SupportsOpt(negotiated) =>
        delivered' = delivered \o ValidTags(ms) /\ toChild' = toChild]_<<gvars, v>>
OnlyErrorsToChild == \A i \in DOMAIN toChild : toChild[i] = 32600
=============================================================================
