------------------------- MODULE RequestWaitTrace -------------------------
(***************************************************************************)
(* Validation of executions of the real send_message against RequestWait.  *)
(*                                                                         *)
(* TRACE_FILE holds an array of traces recorded by harness/drivers/        *)
(* request_wait.py; one JVM validates thousands of them: Init picks tid.   *)
(*                                                                         *)
(* Strict = TRUE   every logged event must be explained by an action of    *)
(*                 RequestWait (silent steps: Recv of a skipped message,   *)
(*                 PollTimeout, Advance - bounded by the next logged time) *)
(* Strict = FALSE  total observer: the abstract state is rebuilt from the  *)
(*                 logged fields alone; used for traces the strict spec    *)
(*                 rejects, so that a clause of a property can be judged   *)
(*                 on code that no longer follows the implementation model *)
(* In both modes the property clauses of RequestWait are evaluated in      *)
(* every state; failures are collected in TLC register 3 as <<tid, clause>>*)
(***************************************************************************)
EXTENDS RequestWait, Json, IOUtils, TLCExt

CONSTANT Strict

Traces == JsonDeserialize(IOEnv.TRACE_FILE)
NT == Len(Traces)

ASSUME TLCSet(1, {})                      \* tids whose trace was consumed completely
ASSUME TLCSet(2, [i \in 1..NT |-> 0])     \* longest matched prefix per tid
ASSUME TLCSet(3, {})                      \* <<tid, clause>> failures

VARIABLES tid, l, bad
tvars == <<vars, tid, l, bad>>

Tr == Traces[tid]
Evs == Tr.ev
Ev == Evs[l]
More == l <= Len(Evs)
Is(name) == More /\ Ev.e = name
Consume == l' = l + 1 /\ tid' = tid
Flag(ok, name) == bad' = IF ok THEN bad ELSE bad \cup {name}

TInit ==
  /\ tid \in 1..NT
  /\ l = 1
  /\ bad = {}
  /\ InitWith([c \in Callers |-> Traces[tid].cfg[c]])

MsgOf(e) == [k |-> e.k, id |-> e.id, n |-> e.n, at |-> e.t]

-----------------------------------------------------------------------------
(* Strict mode: logged events bound to the actions of RequestWait *)

SStart ==
  /\ Is("Start") /\ now = Ev.t /\ Start(Ev.c) /\ Consume /\ UNCHANGED bad

\* the request / the cancelled notification observed on the write stream
SWire ==
  /\ Is("Wire") /\ now = Ev.t /\ Consume
  /\ Flag(Ev.ok, "WireContent")
  /\ IF Ev.c \notin Callers
     THEN UNCHANGED vars                                   \* a message no caller can be held to have written (flagged above)
     ELSE IF Ev.w = "request"
     THEN reqWritten[Ev.c] = 1 /\ UNCHANGED vars          \* written by Start
     ELSE IF cancelNotifs[Ev.c] = 1
          THEN UNCHANGED vars                                \* written by Start (pre-cancelled)
          ELSE /\ (PollTimeout(Ev.c) \/ Recv(Ev.c))
               /\ cancelNotifs'[Ev.c] = 1 /\ progLog' = progLog

SArrive ==
  /\ Is("Arrive") /\ now = Ev.t /\ narr + 1 = Ev.n
  /\ ArriveMsg(MsgOf(Ev)) /\ Consume /\ UNCHANGED bad

\* a token triggered after its call completed is not an event of the model
SCancel ==
  /\ Is("Cancel") /\ now = Ev.t /\ Consume /\ UNCHANGED bad
  /\ IF st[Ev.c] = "done" THEN UNCHANGED vars ELSE Cancel(Ev.c)

SProgress ==
  /\ Is("Progress") /\ now = Ev.t
  /\ CanRecv(Ev.c) /\ (Ev.sure => NextFor(Ev.c).n = Ev.n) /\ ProgressHit(Ev.c, NextFor(Ev.c))
  /\ Recv(Ev.c) /\ Consume
  /\ Flag(Ev.ok, "ProgressValues")

SComplete ==
  /\ Is("Complete") /\ now = Ev.t /\ Consume
  /\ Flag(Ev.ok, "PayloadExact")
  /\ IF st[Ev.c] = "done"
     THEN outcome[Ev.c].kind = Ev.kind /\ UNCHANGED vars     \* completed by an earlier logged step
     ELSE /\ \/ /\ Ev.kind \in {"result", "error"}
                /\ CanRecv(Ev.c) /\ NextFor(Ev.c).n = Ev.n /\ Recv(Ev.c)
             \/ /\ Ev.kind = "timeout" /\ Deadline(Ev.c)
          /\ outcome'[Ev.c].kind = Ev.kind

SEnd ==
  /\ Is("End") /\ Consume /\ UNCHANGED vars
  /\ \A c \in Callers : st[c] # "wait"
  /\ Len(inq) = Ev.qlen          \* selects the branch whose silent receives match the stream
  /\ UNCHANGED bad

\* silent steps
SilentRecv ==
  /\ More
  /\ \E c \in Callers :
       /\ Recv(c) /\ st'[c] = "wait" /\ progLog' = progLog
  /\ UNCHANGED <<tid, l, bad>>
SilentEnter ==
  /\ More
  /\ \E c \in Callers : EnterRecv(c)
  /\ UNCHANGED <<tid, l, bad>>
SilentPoll ==
  /\ More
  /\ \E c \in Callers : PollTimeout(c) /\ st'[c] = "wait"
  /\ UNCHANGED <<tid, l, bad>>
SilentAdvance ==
  /\ More /\ Ev.t > now
  /\ \E t \in Timers \cup {Ev.t} : t <= Ev.t /\ AdvanceTo(t)
  /\ UNCHANGED <<tid, l, bad>>

StrictNext ==
  \/ SStart \/ SWire \/ SArrive \/ SCancel \/ SProgress \/ SComplete \/ SEnd
  \/ SilentRecv \/ SilentEnter \/ SilentPoll \/ SilentAdvance

-----------------------------------------------------------------------------
(* Observer mode: state rebuilt from the logged fields; inq keeps every arrival *)

OStart ==
  /\ Is("Start") /\ Consume /\ UNCHANGED bad
  /\ now' = Ev.t
  /\ startedAt' = [startedAt EXCEPT ![Ev.c] = Ev.t]
  /\ st' = [st EXCEPT ![Ev.c] = "wait"]
  /\ deadline' = [deadline EXCEPT ![Ev.c] = Ev.t + cfg[Ev.c].T]
  /\ UNCHANGED <<inq, narr, cfg, pollAt, outcome, reqWritten, cancelNotifs, cancelled, cancelAt, progLog, progArr, firstMatch, entering, waitq, hand>>

OWire ==
  /\ Is("Wire") /\ Consume /\ Flag(Ev.ok, "WireContent")
  /\ now' = Ev.t
  /\ IF Ev.c \notin Callers
     THEN UNCHANGED <<reqWritten, cancelNotifs>>
     ELSE IF Ev.w = "request"
     THEN reqWritten' = [reqWritten EXCEPT ![Ev.c] = @ + 1] /\ UNCHANGED cancelNotifs
     ELSE cancelNotifs' = [cancelNotifs EXCEPT ![Ev.c] = @ + 1] /\ UNCHANGED reqWritten
  /\ UNCHANGED <<inq, narr, cfg, st, deadline, pollAt, outcome, cancelled, cancelAt, progLog, progArr, firstMatch, startedAt, entering, waitq, hand>>

OArrive ==
  /\ Is("Arrive") /\ Consume /\ UNCHANGED bad
  /\ now' = Ev.t
  /\ LET m == MsgOf(Ev) IN
     /\ inq' = Append(inq, m)
     /\ narr' = narr + 1
     /\ firstMatch' = IF IsResp(m) /\ m.id \in Callers /\ firstMatch[m.id] = None
                      THEN [firstMatch EXCEPT ![m.id] = m] ELSE firstMatch
     /\ progArr' = IF m.k = "prog" /\ m.id \in Callers
                   THEN [progArr EXCEPT ![m.id] = Append(@, [n |-> m.n, at |-> m.at])] ELSE progArr
  /\ UNCHANGED <<cfg, st, deadline, pollAt, outcome, reqWritten, cancelNotifs, cancelled, cancelAt, progLog, startedAt, entering, waitq, hand>>

OCancel ==
  /\ Is("Cancel") /\ Consume /\ UNCHANGED bad
  /\ now' = Ev.t
  /\ cancelled' = IF st[Ev.c] = "done" THEN cancelled ELSE [cancelled EXCEPT ![Ev.c] = TRUE]
  /\ cancelAt' = IF st[Ev.c] = "done" THEN cancelAt ELSE [cancelAt EXCEPT ![Ev.c] = Ev.t]
  /\ UNCHANGED <<inq, narr, cfg, st, deadline, pollAt, outcome, reqWritten, cancelNotifs, progLog, progArr, firstMatch, startedAt, entering, waitq, hand>>

OProgress ==
  /\ Is("Progress") /\ Consume /\ Flag(Ev.ok, "ProgressValues")
  /\ now' = Ev.t
  /\ progLog' = [progLog EXCEPT ![Ev.c] = Append(@, Ev.n)]
  /\ UNCHANGED <<inq, narr, cfg, st, deadline, pollAt, outcome, reqWritten, cancelNotifs, cancelled, cancelAt, progArr, firstMatch, startedAt, entering, waitq, hand>>

OComplete ==
  /\ Is("Complete") /\ Consume /\ Flag(Ev.ok, "PayloadExact")
  /\ now' = Ev.t
  /\ st' = [st EXCEPT ![Ev.c] = "done"]
  /\ outcome' = [outcome EXCEPT ![Ev.c] =
        [kind |-> Ev.kind,
         src |-> IF Ev.n \in 1..Len(inq) THEN inq[Ev.n] ELSE None,
         t |-> Ev.t,
         pre |-> reqWritten[Ev.c] = 0]]
  /\ UNCHANGED <<inq, narr, cfg, deadline, pollAt, reqWritten, cancelNotifs, cancelled, cancelAt, progLog, progArr, firstMatch, startedAt, entering, waitq, hand>>

OEnd ==
  /\ Is("End") /\ Consume /\ UNCHANGED vars
  /\ Flag(\A c \in Callers : st[c] # "wait", "AllDoneAtEnd")

ObsNext == OStart \/ OWire \/ OArrive \/ OCancel \/ OProgress \/ OComplete \/ OEnd

-----------------------------------------------------------------------------
TNext == IF Strict THEN StrictNext ELSE ObsNext
TSpec == TInit /\ [][TNext]_tvars

\* clauses, judged in every reached state
Clauses == <<
  <<"OnlyOwnResponse", OnlyOwnResponse>>,
  <<"FirstResponse", FirstResponse>>,
  <<"ExactlyOneRequest", \A c \in Callers : reqWritten[c] <= 1 /\ (st[c] = "done" /\ ~outcome[c].pre => reqWritten[c] = 1)>>,
  <<"TimeoutIfNone", TimeoutIfNone>>,
  <<"ErrNeverNormal", ErrNeverNormal>>,
  <<"EndsByDeadline", EndsByDeadline>>,
  <<"EndedByDeadline", EndedByDeadline>>,
  <<"CancelPrompt", CancelPrompt>>,
  <<"CancelPromptDone", CancelPromptDone>>,
  <<"CancelOutcome", CancelOutcome>>,
  <<"OneCancelNotif", (\A c \in Callers : cancelNotifs[c] <= 1) /\ (l > Len(Evs) => OneCancelNotif)>>,
  <<"NeverSentIfPreCancelled", NeverSentIfPreCancelled>>,
  <<"PreCancelledNeverSent", PreCancelledNeverSent>>,
  <<"ProgressSound", ProgressSound>>,
  <<"ProgressExact", ProgressExactIf(Tr.solo)>>,
  <<"NoLostResponse", NoLostResponse>>,
  <<"OutcomeKind", \A c \in Callers : outcome[c].kind \in {"none", "result", "error", "timeout", "cancelled"}>>,
  <<"DriverFlags", bad = {}>>
>>

\* Strict mode branches on silent steps; a clause is judged only in states that end a complete
\* explanation of the trace (dead-end guesses must not raise alarms).  The observer is
\* deterministic and judges every state.
Judge ==
  /\ (l = Len(Evs) + 1 \/ ~Strict) =>
       \A i \in 1..Len(Clauses) :
        Clauses[i][2] \/ TLCSet(3, TLCGet(3) \cup {<<tid, Clauses[i][1], bad>>})
  /\ (l > TLCGet(2)[tid] => TLCSet(2, [TLCGet(2) EXCEPT ![tid] = l]))
  /\ (l = Len(Evs) + 1 => TLCSet(1, TLCGet(1) \cup {tid}))

Post ==
  JsonSerialize(IOEnv.OUT_FILE,
     [n |-> NT, accepted |-> TLCGet(1), maxl |-> TLCGet(2), failed |-> TLCGet(3)])
=============================================================================
