------------------------- MODULE VersioningUnbounded -------------------------
(* Apalache instance of the decision part of Versioning.tla (C13) for an UNBOUNDED year:       *)
(* TLC checks Versioning on every point of a finite grid (2.1 M points in the thorough tier);  *)
(* here the SMT solver shows, for every integer year and every month / day field in 0..99,     *)
(* that the branch structure of supports_batching (CodeSupports) is the contract (older than   *)
(* 2025-06-18 in the numeric lexicographic order) and that the decision is monotone.           *)
(* The operators are transcribed from Versioning.tla (which uses RECURSIVE operators Apalache   *)
(* does not take); `./check C13` runs both.                                                     *)
EXTENDS Integers

CONSTANT
  \* @type: Int;
  Year

VARIABLES
  \* @type: Int;
  m,
  \* @type: Int;
  d

ConstInit == Year \in Int

Lt3(a1, a2, a3, b1, b2, b3) == \/ a1 < b1
                               \/ a1 = b1 /\ a2 < b2
                               \/ a1 = b1 /\ a2 = b2 /\ a3 < b3
Supports(y, mm, dd) == Lt3(y, mm, dd, 2025, 6, 18)
CodeSupports(y, mm, dd) ==
  IF y > 2025 THEN FALSE
  ELSE IF y = 2025 /\ mm > 6 THEN FALSE
  ELSE IF y = 2025 /\ mm = 6 /\ dd >= 18 THEN FALSE
  ELSE TRUE

Init == m \in 0..99 /\ d \in 0..99
Next == UNCHANGED <<m, d>>

CodeIsContract == CodeSupports(Year, m, d) = Supports(Year, m, d)
\* the successor in grid order
SuccSupports == IF d < 99 THEN Supports(Year, m, d + 1)
                ELSE IF m < 99 THEN Supports(Year, m + 1, 0)
                ELSE Supports(Year + 1, 0, 0)
Monotone == SuccSupports => Supports(Year, m, d)
\* any later version (not only the successor) that supports batching implies this one does
MonotoneAll == \A y2 \in {Year, Year + 1}, m2 \in 0..99, d2 \in 0..99 :
                  (Lt3(Year, m, d, y2, m2, d2) /\ Supports(y2, m2, d2)) => Supports(Year, m, d)
=============================================================================
