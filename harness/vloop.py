"""Virtual-time asyncio event loop.

time() is a field; when nothing is ready the clock jumps to the next armed timer, so a
60 s timeout costs microseconds and every execution is deterministic.  anyio deadlines
(fail_after / move_on_after) are loop.call_at timers, so they obey this clock.

If the loop has nothing ready and no timer armed while the main coroutine is unfinished, the
program under test would hang forever: Deadlock is raised instead.  A loop that keeps arming
timers without ever finishing (a polling wait whose condition never comes true) is the same
hang in another shape: `max_iter` bounds the number of loop iterations of one run and
Deadlock is raised when it is exceeded, so a driver can never spin for ever.
"""
import asyncio
import heapq
import os
import selectors


class Deadlock(RuntimeError):
    pass


class VirtualLoop(asyncio.SelectorEventLoop):
    def __init__(self):
        super().__init__(selectors.SelectSelector())
        self._vt = 0.0
        self.max_time = 1e9
        self.max_iter = None
        self.iterations = 0

    def time(self):
        return self._vt

    def _run_once(self):
        self.iterations += 1
        if self.max_iter is not None and self.iterations > self.max_iter and not self._stopping:
            n, self.max_iter = self.max_iter, None       # the runner's clean-up (cancel all tasks) still needs the loop
            raise Deadlock(f"livelock: more than {n} loop iterations")
        # drop cancelled timers at the head so that the jump target is a live timer
        while self._scheduled and self._scheduled[0]._cancelled:
            self._timer_cancelled_count -= 1
            h = heapq.heappop(self._scheduled)
            h._scheduled = False
        if not self._ready:
            if self._scheduled:
                when = self._scheduled[0]._when
                if when > self._vt:
                    self._vt = when
                if self._vt > self.max_time:
                    raise Deadlock(f"virtual time ran past {self.max_time}")
            elif not self._stopping:
                # nothing will ever happen again (no fds are registered by the harness
                # except the self-pipe)
                raise Deadlock("no ready callbacks and no timers")
        super()._run_once()


def run(coro_fn, *args, max_iter=None, max_time=None):
    """Run `await coro_fn(*args)` under anyio on a fresh virtual loop."""
    import anyio

    def factory():
        loop = VirtualLoop()
        if max_iter is not None:
            loop.max_iter = max_iter
        if max_time is not None:
            loop.max_time = max_time
        return loop

    loops = []

    def tracked():
        loops.append(factory())
        return loops[-1]

    try:
        return anyio.run(
            coro_fn, *args, backend="asyncio", backend_options={"loop_factory": tracked}
        )
    finally:
        stats = os.environ.get("VERIF_VLOOP_STATS")      # development aid: iterations per run
        if stats and loops:
            with open(stats, "a") as fh:
                fh.write("%s.%s %d %d\n" % (getattr(coro_fn, "__module__", "?"), getattr(coro_fn, "__qualname__", "?"), loops[-1].iterations, max_iter or 0))


async def wait_until(pred, limit, step=0.001):
    """Poll `pred` every `step` virtual seconds (the waiter resumes in the instant the condition
    comes true) and give up after `limit` virtual seconds.  Returns whether it came true."""
    import anyio

    loop = asyncio.get_running_loop()
    t0 = loop.time()
    while not pred():
        if loop.time() - t0 >= limit:
            return False
        await anyio.sleep(step)
    return True


async def sleep_until(t):
    loop = asyncio.get_running_loop()
    d = t - loop.time()
    if d > 0:
        await asyncio.sleep(d)
    else:
        await asyncio.sleep(0)


def now():
    return asyncio.get_running_loop().time()
