-------------------------- MODULE HandshakeTrace --------------------------
(* Recorded executions of the real send_initialize(_with_client_tracking) - against a        *)
(* scripted responder or against the real ProtocolHandler (Paired) - validated against       *)
(* Handshake.  Strict: every event is an action of the specification (Decide is silent).     *)
(* Observer (Strict = FALSE): state rebuilt from the logged fields.  Clauses are judged in   *)
(* the final state of a completely consumed trace.                                           *)
EXTENDS Handshake, TraceBatch

CONSTANT Strict
VARIABLES tid, l
tvars == <<vars, tid, l>>

Tr == Traces[tid]
Evs == Tr.ev
Ev == Evs[l]
Is(n) == l <= Len(Evs) /\ Ev.e = n
Consume == l' = l + 1 /\ tid' = tid

TInit == tid \in 1..NT /\ l = 1 /\ InitWithFault(Traces[tid].sup, Traces[tid].pref, Traces[tid].tracked, Traces[tid].broken)

SNext ==
  \/ Is("Propose") /\ Propose /\ proposed' = Ev.v /\ Consume
  \/ Is("Answer") /\ Answered(Ev.a) /\ Consume
       /\ (Paired => Ev.a = [k |-> "version", v |-> ServerAnswerTo(proposed)])
  \/ phase = "answered" /\ Decide /\ UNCHANGED <<tid, l>>
  \/ Is("Initialized") /\ SendInitialized /\ Consume
  \/ phase = "accepted" /\ InitializedWriteFails /\ UNCHANGED <<tid, l>>
  \/ Is("Outcome") /\ Consume
       /\ IF phase = "notified" THEN Return /\ Ev.kind = "ok" /\ Ev.version = answer.v
          ELSE phase = "failed" /\ outcome.kind = Ev.kind /\ UNCHANGED vars
  \/ Is("Batching") /\ batching = Ev.state /\ UNCHANGED vars /\ Consume
  \/ Is("Session") /\ sessVersion = Ev.version /\ UNCHANGED vars /\ Consume

ONext ==
  \/ Is("Propose") /\ Consume /\ proposed' = Ev.v /\ wire' = Append(wire, <<"initialize", Ev.v>>) /\ phase' = "waiting"
       /\ UNCHANGED <<sup, pref, tracked, answer, outcome, batching, sessVersion, wireBroken>>
  \/ Is("Answer") /\ Consume /\ answer' = Ev.a /\ phase' = "answered"
       /\ UNCHANGED <<sup, pref, tracked, proposed, wire, outcome, batching, sessVersion, wireBroken>>
  \/ Is("Initialized") /\ Consume /\ wire' = Append(wire, <<"initialized", "-">>)
       /\ UNCHANGED <<sup, pref, tracked, proposed, answer, phase, outcome, batching, sessVersion, wireBroken>>
  \/ Is("Outcome") /\ Consume
       /\ outcome' = (IF Ev.kind = "ok" THEN [kind |-> "ok", version |-> Ev.version] ELSE [kind |-> Ev.kind])
       /\ phase' = (IF Ev.kind = "ok" THEN "done" ELSE "failed")
       /\ UNCHANGED <<sup, pref, tracked, proposed, answer, wire, batching, sessVersion, wireBroken>>
  \/ Is("Batching") /\ Consume /\ batching' = Ev.state
       /\ UNCHANGED <<sup, pref, tracked, proposed, answer, phase, wire, outcome, sessVersion, wireBroken>>
  \/ Is("Session") /\ Consume /\ sessVersion' = Ev.version
       /\ UNCHANGED <<sup, pref, tracked, proposed, answer, phase, wire, outcome, batching, wireBroken>>

TNext == IF Strict THEN SNext ELSE ONext
TSpec == TInit /\ [][TNext]_tvars

Clauses == <<
  <<"ProposalRule", ProposalRule>>,
  <<"SuccessOnlyOffered", SuccessOnlyOffered>>,
  <<"MismatchRaises", MismatchRaises>>,
  <<"NoInitializedUnlessAccepted", NoInitializedUnlessAccepted>>,
  <<"NoInitializedOnFailure", NoInitializedOnFailure>>,
  <<"ExactlyOneInitialized", ExactlyOneInitialized>>,
  <<"BatchingTracksVersion", BatchingTracksVersion>>,
  <<"FailureNeverOk", FailureNeverOk>>,
  <<"Finished", Finished>>,
  <<"AnswerSupported", AnswerSupported>>,
  <<"EchoWhenSupported", EchoWhenSupported>>,
  <<"SessionCarriesAnswer", SessionCarriesAnswer>>,
  <<"AgreedOrMismatch", AgreedOrMismatch>>
>>

Judge ==
  /\ Reached(tid, l)
  /\ (l = Len(Evs) + 1 => Accept(tid) /\ JudgeAll(tid, Clauses, "final"))
=============================================================================
