------------------------- MODULE StdioRoutingTrace -------------------------
(* Real StdioClient (process seam): a script of Register(id) / Feed(kind, id) steps; after   *)
(* each step the messages that appeared on the main stream, the notification stream and each *)
(* registered legacy stream are logged (by marker) and must be the step StdioRouting takes.  *)
EXTENDS StdioRouting, TraceBatch
VARIABLES tid, l
tvars == <<vars, tid, l>>
Evs == Traces[tid]
Ev == Evs[l]
Is(o) == l <= Len(Evs) /\ Ev.op = o
Consume == l' = l + 1 /\ tid' = tid
New(a, b) == SubSeq(b, Len(a) + 1, Len(b))
TInit == tid \in 1..NT /\ l = 1 /\ Init
TNext ==
  \/ Is("Register") /\ Register(Ev.id) /\ Consume
  \/ /\ Is("Feed") /\ Route(Ev.kind, Ev.id) /\ Consume
     /\ New(main, main') = Ev.main /\ New(notify, notify') = Ev.notify
     /\ \A i \in Ids : New(legacy[i], legacy'[i]) = (IF i = Ev.id THEN Ev.legacy ELSE <<>>)
TSpec == TInit /\ [][TNext]_tvars
Judge == Reached(tid, l) /\ (l = Len(Evs) + 1 => Accept(tid))
=============================================================================
