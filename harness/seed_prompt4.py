"""third-round prompt: same as seed_prompt plus a list of mechanisms already covered"""
import json, sys, subprocess, glob
pid, wt = sys.argv[1], sys.argv[2]
base = subprocess.check_output(["/venv/bin/python", "/verif/harness/seed_prompt.py", pid, wt, "2"]).decode()
base = base.replace("/tmp/seedout/%s/" % pid, "/tmp/seedout4/%s/" % pid)
prev = []
for m in sorted(glob.glob("/verif/seeded/%s_*m*/meta.json" % pid)):
    d = json.load(open(m))
    prev.append("- " + (d.get("title") or "")[:200])
extra = "\n\nIMPORTANT - earlier rounds already produced the following changes for this property; yours must use DIFFERENT mechanisms and different code sites (do not repeat these):\n" + "\n".join(prev) + "\n"
print(base + extra)
