------------------------------ MODULE StdioOut ------------------------------
(***************************************************************************)
(* Outbound framing of the stdio transport (C06):                          *)
(*   chuk_mcp/transports/stdio/stdio_client.py  _stdin_writer              *)
(* Items accepted on the write stream are typed messages, plain dicts or   *)
(* pre-serialised strings; some cannot be serialised.  The writer task     *)
(* takes them one by one (WriteOne) and writes one line or drops the item  *)
(* alone; closing the write stream closes the child's stdin after the      *)
(* queue has drained.                                                      *)
(***************************************************************************)
EXTENDS Naturals, Sequences, FiniteSets, TLC

CONSTANTS Shapes,       \* item shapes
          Bad,          \* the unserialisable ones
          MaxItems

VARIABLES accepted, outq, childIn, writeClosed, stdinClosed
vars == <<accepted, outq, childIn, writeClosed, stdinClosed>>

Init == accepted = <<>> /\ outq = <<>> /\ childIn = <<>> /\ writeClosed = FALSE /\ stdinClosed = FALSE

\* item = <<index, shape>>
AcceptItem(sh) ==
  /\ ~writeClosed /\ Len(accepted) < MaxItems
  /\ accepted' = Append(accepted, <<Len(accepted) + 1, sh>>)
  /\ outq' = Append(outq, <<Len(accepted) + 1, sh>>)
  /\ UNCHANGED <<childIn, writeClosed, stdinClosed>>

WriteOne ==
  /\ outq # <<>> /\ ~stdinClosed
  /\ outq' = Tail(outq)
  /\ childIn' = IF Head(outq)[2] \in Bad THEN childIn ELSE Append(childIn, Head(outq)[1])    \* dropped alone
  /\ UNCHANGED <<accepted, writeClosed, stdinClosed>>

CloseWrite ==
  /\ ~writeClosed /\ writeClosed' = TRUE
  /\ UNCHANGED <<accepted, outq, childIn, stdinClosed>>

CloseStdin ==
  /\ writeClosed /\ outq = <<>> /\ ~stdinClosed /\ stdinClosed' = TRUE
  /\ UNCHANGED <<accepted, outq, childIn, writeClosed>>

\* the reader task answers a rejected batch with an error line of its own (index 0), whenever
\* it likes: it must be a line of its own, between two lines of the writer
RejectionLine ==
  /\ ~stdinClosed /\ Len(SelectSeq(childIn, LAMBDA x : x = 0)) < 1
  /\ childIn' = Append(childIn, 0)
  /\ UNCHANGED <<accepted, outq, writeClosed, stdinClosed>>

Next == (\E sh \in Shapes : AcceptItem(sh)) \/ WriteOne \/ RejectionLine \/ CloseWrite \/ CloseStdin
Spec == Init /\ [][Next]_vars /\ WF_vars(WriteOne) /\ WF_vars(CloseStdin)

Ser(q) == SelectSeq(q, LAMBDA it : it[2] \notin Bad)
Idx(q) == [i \in DOMAIN q |-> q[i][1]]
\* one line per serialisable item, in the order sent; nothing else
InOrderNoLoss == SelectSeq(childIn, LAMBDA x : x # 0) \o Idx(Ser(outq)) = Idx(Ser(accepted))
ClosedOnlyAfterDrain == stdinClosed => writeClosed /\ outq = <<>>
CloseReachesChild == writeClosed ~> stdinClosed
=============================================================================
