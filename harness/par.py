"""Process-parallel map for drivers (fresh interpreter state per worker, repo imported there)."""
import multiprocessing as mp
import os


def _init(paths, env=None):
    import sys
    for p in paths:
        if p not in sys.path:
            sys.path.insert(0, p)
    if env:
        if any(m == "chuk_mcp" or m.startswith("chuk_mcp.") for m in sys.modules):
            raise RuntimeError("chuk_mcp was imported before the worker environment could be set")
        os.environ.update(env)


def pmap(fn, items, jobs=16, chunksize=None, env=None):
    items = list(items)
    if not items:
        return []
    if (len(items) < 8 or jobs <= 1) and not env:
        return [fn(x) for x in items]
    import sys
    ctx = mp.get_context("fork")
    cs = chunksize or max(1, len(items) // (jobs * 8))
    with ctx.Pool(min(jobs, os.cpu_count() or 1), initializer=_init, initargs=(list(sys.path), env)) as pool:
        return pool.map(fn, items, chunksize=cs)
