---- MODULE GenBatchGate ----
(* histories of BatchGate behaviours of MaxSteps steps; printed when the last step is taken *)
EXTENDS MC_BatchGate
VARIABLE hist
HNext ==
  /\ steps < MaxSteps
  /\ \/ \E w \in MCVersions : SetVersion(w) /\ hist' = Append(hist, [op |-> "SetVersion", t |-> w])
     \/ \E ms \in BatchesUpTo(MaxBatch) : RecvBatch(ms) /\ hist' = Append(hist, [op |-> "Batch", members |-> ms])
     \/ \E k \in Kinds \ {"invNested"} : RecvSingle(k) /\ hist' = Append(hist, [op |-> "Single", kind |-> k])
HSpec == GInit /\ hist = <<>> /\ [][HNext]_<<gvars, v, hist>>
HView == <<negotiated, steps, Len(delivered) % 2, Len(toChild)>>
Emit == steps' = MaxSteps => PrintT(<<"PATH", ToJson(hist')>>)
====
