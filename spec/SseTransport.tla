--------------------------- MODULE SseTransport ---------------------------
(***************************************************************************)
(* Legacy SSE transport (C12):                                             *)
(*   chuk_mcp/transports/sse/transport.py  __aenter__, _handle_sse_        *)
(*   connection, _process_sse_stream, _handle_message_event,               *)
(*   _send_message_via_http, _cleanup                                      *)
(*                                                                         *)
(* One connection: a GET event stream on which the server must announce    *)
(* the message endpoint, and POSTs for outgoing messages.  A request is    *)
(* answered in the POST reply (200), or on the event stream before/after a *)
(* 202 acknowledgement, or never (a timeout error is synthesised), or the  *)
(* POST fails.  Time is in units; Timeout units is the configured timeout. *)
(* Deviations of the tree before repair:                                   *)
(*   EnterOnFailure   the connection task's `finally: _connected.set()`    *)
(*                    lets __aenter__ return although no endpoint was      *)
(*                    announced                                            *)
(*   LateEventRouted  an answer arriving after the synthesised timeout is  *)
(*                    routed as an ordinary message (second message with   *)
(*                    the request's id)                                    *)
(***************************************************************************)
EXTENDS Naturals, Sequences, FiniteSets, TLC

CONSTANTS Timeout, MaxTime, MaxSrv, EnterOnFailure, LateEventRouted

Estabs == {"announce", "announceSlow", "status4xx", "connectError", "streamEnds", "never"}
Replies == {"r200", "r202", "r500", "exc"}

VARIABLES now, estab, phase, url, entered, enteredAt,
          req, reply, future, postedAt, readStream, srvSent, exited, lateSeen
vars == <<now, estab, phase, url, entered, enteredAt, req, reply, future, postedAt, readStream, srvSent, exited, lateSeen>>

\* req:    "none" | "posted" | "waiting" (202 received, waiting for the event) | "done"
\* future: "none" | "pending" | "resolved" | "gone"
Init ==
  /\ now = 0 /\ estab \in Estabs /\ phase = "connecting" /\ url = FALSE
  /\ entered = "no" /\ enteredAt = 0
  /\ req = "none" /\ reply = "none" /\ future = "none" /\ postedAt = 0
  /\ readStream = <<>> /\ srvSent = 0 /\ exited = FALSE /\ lateSeen = FALSE

Tick ==
  /\ now < MaxTime /\ ~exited
  /\ (phase = "connecting" => now < Timeout)                 \* the establishment wait ends at Timeout
  /\ ~(entered = "no" /\ phase \in {"ready", "failed"})        \* __aenter__ resumes at once
  /\ ~(req = "waiting" /\ future = "resolved")                \* so does the waiting sender
  /\ (req = "waiting" => now < postedAt + Timeout)           \* the 202 wait ends at postedAt + Timeout
  /\ now' = now + 1
  /\ UNCHANGED <<estab, phase, url, entered, enteredAt, req, reply, future, postedAt, readStream, srvSent, exited, lateSeen>>

\* ---- establishment ----
Announce ==
  /\ phase = "connecting" /\ estab \in {"announce", "announceSlow"}
  /\ (estab = "announceSlow" => now >= 1)
  /\ now < Timeout                                            \* an announcement at the very instant of the timeout may lose
  /\ url' = TRUE /\ phase' = "ready"
  /\ UNCHANGED <<now, estab, entered, enteredAt, req, reply, future, postedAt, readStream, srvSent, exited, lateSeen>>

EstablishFails ==
  /\ phase = "connecting"
  /\ \/ estab \in {"status4xx", "connectError", "streamEnds"}
     \/ estab = "never" /\ now = Timeout
     \/ estab = "announceSlow" /\ now = Timeout
  /\ phase' = "failed"
  /\ UNCHANGED <<now, estab, url, entered, enteredAt, req, reply, future, postedAt, readStream, srvSent, exited, lateSeen>>

Enter ==
  /\ entered = "no" /\ phase \in {"ready", "failed"}
  /\ entered' = IF phase = "ready" \/ (EnterOnFailure /\ estab # "never" /\ ~(estab = "announceSlow")) THEN "returned" ELSE "raised"
  /\ enteredAt' = now
  /\ UNCHANGED <<now, estab, phase, url, req, reply, future, postedAt, readStream, srvSent, exited, lateSeen>>

\* ---- one request ----
SendRequest ==
  /\ entered = "returned" /\ ~exited /\ req = "none" /\ url
  /\ req' = "posted" /\ future' = "pending" /\ postedAt' = now
  /\ UNCHANGED <<now, estab, phase, url, entered, enteredAt, reply, readStream, srvSent, exited, lateSeen>>

Own(src) == [id |-> "own", src |-> src, n |-> 0]

\* the answer arrives on the event stream
Event ==
  /\ req # "none" /\ ~exited /\ phase = "ready"
  /\ \A i \in DOMAIN readStream : readStream[i] # Own("event")           \* the server answers once
  /\ future # "resolved"
  /\ IF future = "pending"
     THEN /\ future' = "resolved" /\ UNCHANGED readStream                  \* held for the waiting sender
     ELSE /\ (LateEventRouted \/ future = "none")                          \* no waiter any more
          /\ readStream' = Append(readStream, Own("event")) /\ UNCHANGED future
  /\ UNCHANGED <<now, estab, phase, url, entered, enteredAt, req, reply, postedAt, srvSent, exited, lateSeen>>

\* a late answer for a request that already got its terminal message is dropped
EventDropped ==
  /\ ~LateEventRouted /\ req = "done" /\ future = "gone" /\ ~exited /\ phase = "ready" /\ ~lateSeen
  /\ reply \in {"r202", "r500", "exc"}                       \* the server had not answered in the POST reply
  /\ lateSeen' = TRUE
  /\ UNCHANGED <<now, estab, phase, url, entered, enteredAt, req, reply, future, postedAt, readStream, srvSent, exited>>

PostReply(r) ==
  /\ req = "posted" /\ ~exited
  /\ reply' = r
  /\ CASE r = "r200" -> /\ readStream' = Append(readStream, Own("post")) /\ req' = "done" /\ future' = "gone"
       [] r = "r202" -> IF future = "resolved"
                        THEN readStream' = Append(readStream, Own("event")) /\ req' = "done" /\ future' = "gone"
                        ELSE req' = "waiting" /\ UNCHANGED <<readStream, future>>
       [] r \in {"r500", "exc"} -> /\ readStream' = Append(readStream, Own("synth")) /\ req' = "done" /\ future' = "gone"
  /\ postedAt' = IF r = "r202" THEN now ELSE postedAt       \* the wait for the event starts with the 202
  /\ UNCHANGED <<now, estab, phase, url, entered, enteredAt, srvSent, exited, lateSeen>>

\* the waiting sender gets the event
Deliver ==
  /\ req = "waiting" /\ future = "resolved" /\ ~exited
  /\ readStream' = Append(readStream, Own("event")) /\ req' = "done" /\ future' = "gone"
  /\ UNCHANGED <<now, estab, phase, url, entered, enteredAt, reply, postedAt, srvSent, exited, lateSeen>>

WaitTimeout ==
  /\ req = "waiting" /\ future = "pending" /\ now = postedAt + Timeout /\ ~exited
  /\ readStream' = Append(readStream, Own("synth")) /\ req' = "done" /\ future' = "gone"
  /\ UNCHANGED <<now, estab, phase, url, entered, enteredAt, reply, postedAt, srvSent, exited, lateSeen>>

\* a server-initiated message on the event stream
ServerMsg ==
  /\ phase = "ready" /\ ~exited /\ srvSent < MaxSrv
  /\ srvSent' = srvSent + 1
  /\ readStream' = Append(readStream, [id |-> "srv", src |-> "srv", n |-> srvSent + 1])
  /\ UNCHANGED <<now, estab, phase, url, entered, enteredAt, req, reply, future, postedAt, exited, lateSeen>>

Exit ==
  /\ entered = "returned" /\ ~exited /\ exited' = TRUE
  /\ UNCHANGED <<now, estab, phase, url, entered, enteredAt, req, reply, future, postedAt, readStream, srvSent, lateSeen>>

Next == Tick \/ Announce \/ EstablishFails \/ Enter \/ SendRequest \/ Event \/ EventDropped
        \/ (\E r \in Replies : PostReply(r)) \/ Deliver \/ WaitTimeout \/ ServerMsg \/ Exit
Spec == Init /\ [][Next]_vars

-----------------------------------------------------------------------------
CountOwn == Cardinality({i \in DOMAIN readStream : readStream[i].id = "own"})
\* entering yields a live connection or raises, within the timeout
LiveOrRaise == entered = "returned" => url
WithinTimeout == entered # "no" => enteredAt <= Timeout
\* exactly one terminal message per request, whatever the order of POST completion and event arrival
OneTerminal == (req = "done" => CountOwn = 1) /\ CountOwn <= 1
\* the terminal message is the server's answer whenever the server gave one in time: an error is
\* synthesised only for a failed POST or after Timeout units of silence following the 202
AnswerIsTerminal ==
  \A i \in DOMAIN readStream : readStream[i] = Own("synth") =>
     \/ reply \in {"r500", "exc"}
     \/ reply = "r202" /\ now >= postedAt + Timeout
\* server messages once and in order
SrvInOrder ==
  LET idx == {i \in DOMAIN readStream : readStream[i].id = "srv"} IN
  /\ Cardinality(idx) = srvSent
  /\ \A i, j \in idx : i < j => readStream[i].n < readStream[j].n

\* the legacy SSE event stream implements Pipe for server-initiated messages: sent = the messages
\* the server put on the event stream, delivered = those among what reached the read stream
SrvItems(q) == SelectSeq(q, LAMBDA it : it.id = "srv")
PipeOfSse == INSTANCE Pipe WITH sent <- [i \in 1..srvSent |-> [id |-> "srv", src |-> "srv", n |-> i]], delivered <- SrvItems(readStream)
ImplementsPipe == PipeOfSse!Spec
=============================================================================
