"""Validation back-end worker (C09, C10, C02): started with and without MCP_FORCE_FALLBACK=1.
Ops (one JSON request on stdin, one reply on stdout):
  discover            -> every McpPydanticBase subclass reachable from the package
  generate(seed,...)  -> type-directed valid wire objects per class (run in ONE worker; the cases
                         are then given to both)
  validate(cases)     -> per case: accepted?, model variant at every level, dump with wire names
  hooks(cases)        -> documented invariants: is the invalid input rejected?
"""
import importlib
import inspect
import json
import os
import pkgutil
import random
import sys
import typing

from harness.workers.codec_worker import tag, untag


def base_and_classes():
    import chuk_mcp
    from chuk_mcp.protocol.mcp_pydantic_base import McpPydanticBase

    found = {}
    for m in pkgutil.walk_packages(chuk_mcp.__path__, "chuk_mcp."):
        try:
            mod = importlib.import_module(m.name)
        except Exception:
            continue
        for n, c in vars(mod).items():
            if inspect.isclass(c) and c is not McpPydanticBase and issubclass(c, McpPydanticBase) and c.__module__ == mod.__name__:
                found[c.__module__ + "." + c.__name__] = c
    return McpPydanticBase, found


def field_info(cls):
    """[(attr name, wire name, required, annotation)]"""
    try:
        hints = typing.get_type_hints(cls)
    except Exception:
        hints = dict(getattr(cls, "__annotations__", {}))
    out = []
    if hasattr(cls, "model_fields") and not hasattr(cls, "__model_fields__"):
        for n, f in cls.model_fields.items():
            out.append((n, f.alias or n, f.is_required(), hints.get(n, f.annotation)))
    else:
        for n, f in cls.__model_fields__.items():
            alias = cls.__field_aliases__.get(n, n)
            out.append((n, alias, n in cls.__model_required__, hints.get(n, typing.Any)))
    return out


NAME_VALUES = {
    "uri": "file:///tmp/verif.txt", "url": "http://verif.invalid/mcp", "mimeType": "text/plain", "data": "aGVsbG8=", "blob": "aGVsbG8=",
    "name": "thing", "text": "héllo \U0001F600 \n x", "method": "tools/list", "jsonrpc": "2.0", "command": "python", "uriTemplate": "file:///{x}",
    "protocolVersion": "2025-06-18", "version": "1.0", "title": "A title", "description": "desc", "cursor": "c1", "nextCursor": "c2", "model": "m",
}
IDS = [1, 0, -3, 2**63 + 1, "abc", "", "123", "007", "-5"]


def gen_value(T, name, rng, depth, McpBase, variant=0):
    """one valid wire value of annotation T"""
    origin = typing.get_origin(T)
    args = typing.get_args(T)
    if T is typing.Any or T is object:
        return rng.choice([{"k": [1, None, {"z": None}]}, "any", 3, [1, "a", None], None, True])
    if origin is typing.Union:
        non_none = [a for a in args if a is not type(None)]
        if set(non_none) == {int, str}:
            return IDS[variant % len(IDS)] if name in ("id", "requestId", "progressToken") else rng.choice(IDS)
        return gen_value(non_none[variant % len(non_none)], name, rng, depth, McpBase, variant // max(1, len(non_none)))
    if origin is typing.Literal:
        return args[variant % len(args)]
    if origin in (list, typing.List):
        if depth > 3:
            return []
        inner = args[0] if args else typing.Any
        n = [1, 2, 0][variant % 3]            # a list with something in it first
        return [gen_value(inner, name, rng, depth + 1, McpBase, variant + i) for i in range(n)]
    if origin in (dict, typing.Dict):
        vt = args[1] if len(args) > 1 else typing.Any
        if vt is typing.Any:
            return {"a": 1, "nil": None, "nested": {"x": None, "y": [None]}, "ünï": "é", " padded key ": " padded value\n"}
        return {"k1": gen_value(vt, "k1", rng, depth + 1, McpBase, variant), "k2": gen_value(vt, "k2", rng, depth + 1, McpBase, variant + 1)}
    if origin is tuple:
        return [gen_value(a, name, rng, depth + 1, McpBase, variant) for a in args if a is not Ellipsis]
    if inspect.isclass(T):
        if issubclass(T, McpBase):
            if variant % 3 == 2 and not any(f[2] for f in field_info(T)):
                return {}                     # present and empty: every member of this object is optional
            return gen_model(T, rng, depth + 1, McpBase, variant)
        if T is str:
            base = NAME_VALUES.get(name, "s-" + name)
            if name in ("uri", "url", "command", "jsonrpc", "method", "protocolVersion", "uriTemplate", "mimeType", "data", "blob"):
                return base
            # surrounding whitespace and line ends are content, not noise
            return [base, "  " + base + " ", base + "\n", "\t" + base][variant % 4]
        if T is bool:
            return bool(variant % 2)
        if T is int:
            return [0, 7, 2**40][variant % 3] if name not in ("total",) else 5
        if T is float:
            return [0.5, 1.0, 0.0][variant % 3]
        if issubclass(T, dict):
            return {"a": 1}
        if issubclass(T, list):
            return []
        import enum
        if issubclass(T, enum.Enum):
            return list(T)[variant % len(list(T))].value
    return "s"


def gen_model(cls, rng, depth, McpBase, variant=0, optional_mask=None, extras=True):
    fields = field_info(cls)
    out = {}
    opt = [f for f in fields if not f[2]]
    for i, (attr, wire, req, T) in enumerate(fields):
        if not req:
            j = opt.index((attr, wire, req, T))
            if optional_mask is not None:
                if not (optional_mask >> j) & 1:
                    continue
            elif depth > 2 or rng.random() < 0.5:
                continue
        # Optional[...] fields present => non-null value (MCP's ?: members are not nullable)
        out[wire] = gen_value(T, attr, rng, depth, McpBase, variant + i)
        if out[wire] is None:
            out[wire] = "x"
    if extras and depth <= 2:
        out["x-extra"] = {"deep": None, "n": [1, None]}
        # unknown members whose names look private, or equal another model's alias, are members too
        out["_trace"] = [1, None, "t"]
        wires = {f[1] for f in fields} | {f[0] for f in fields}
        if "_meta" not in wires and "meta" not in wires:
            out["_meta"] = {"x-unknown": 1}
    return out


def declared_defaults(cls, McpBase):
    """wire name -> what the class itself adds for an absent member (dumped), for both back ends"""
    out = {}
    pyd = hasattr(cls, "model_fields") and not hasattr(cls, "__model_fields__")
    for attr, wire, req, _T in field_info(cls):
        if req:
            continue
        try:
            if pyd:
                d = cls.model_fields[attr].get_default(call_default_factory=True)
            else:
                f = cls.__model_fields__[attr]
                d = f.default_factory() if getattr(f, "default_factory", None) is not None else getattr(f, "default", None)
                if d is ...:
                    d = None
        except Exception:
            continue
        if isinstance(d, McpBase):
            d = d.model_dump(by_alias=True, exclude_none=True)
        out[wire] = d
    return out


def added_ok_deep(o, w, McpBase):
    """every member a typed view adds to its wire object - at any depth - is that class's declared default"""
    if isinstance(o, McpBase) and isinstance(w, dict):
        d = o.model_dump(by_alias=True, exclude_none=True)
        dd = declared_defaults(type(o), McpBase)
        for k in d:
            if k not in w:
                if k not in dd or tag(dd[k]) != tag(d[k]):
                    return False
        for attr, wire, _req, _T in field_info(type(o)):
            if wire in w and not added_ok_deep(getattr(o, attr, None), w[wire], McpBase):
                return False
        return True
    if isinstance(o, list) and isinstance(w, list):
        return all(added_ok_deep(a, b, McpBase) for a, b in zip(o, w))
    if isinstance(o, dict) and isinstance(w, dict):
        return all(added_ok_deep(o[k], w[k], McpBase) for k in w if k in o)
    return True


def scramble(obj, McpBase, seen=None):
    """edit a typed view in place (every nested model, list and dict it holds): later validations
    in the same process must not be able to see it"""
    seen = seen if seen is not None else set()
    if id(obj) in seen:
        return
    seen.add(id(obj))
    if isinstance(obj, McpBase):
        for k, v in list(vars(obj).items()):
            if k.startswith("__"):
                continue
            try:
                if isinstance(v, bool):
                    setattr(obj, k, not v)
                elif isinstance(v, (McpBase, list, dict)):
                    scramble(v, McpBase, seen)
            except Exception:
                pass
    elif isinstance(obj, list):
        for v in obj:
            scramble(v, McpBase, seen)
        obj.append("SCRAMBLED")
    elif isinstance(obj, dict):
        for v in list(obj.values()):
            scramble(v, McpBase, seen)
        obj["SCRAMBLED"] = True


def typed_tree(obj, McpBase):
    """class names at every level where a model instance sits"""
    if isinstance(obj, McpBase):
        d = {}
        src = obj.__dict__ if not hasattr(obj, "model_fields") or hasattr(obj, "__model_fields__") else {**obj.__dict__, **(obj.model_extra or {})}
        for k, v in src.items():
            if k.startswith("__"):
                continue
            t = typed_tree(v, McpBase)
            if t is not None:
                d[k] = t
        return [type(obj).__name__, d]
    if isinstance(obj, list):
        ts = [typed_tree(v, McpBase) for v in obj]
        return ["list", ts] if any(t is not None for t in ts) else None
    if isinstance(obj, dict):
        ts = {k: typed_tree(v, McpBase) for k, v in obj.items()}
        ts = {k: t for k, t in ts.items() if t is not None}
        return ["dict", ts] if ts else None
    return None


def main():
    req = json.load(sys.stdin)
    McpBase, classes = base_and_classes()
    import chuk_mcp.protocol.mcp_pydantic_base as b
    out = {"fallback": not b.PYDANTIC_AVAILABLE}
    op = req["op"]
    if op == "discover":
        out["classes"] = {k: [[a, w, r, str(T)] for a, w, r, T in field_info(c)] for k, c in classes.items()}
    elif op == "generate":
        rng = random.Random(req["seed"])
        cases = []
        for k in sorted(classes):
            c = classes[k]
            fields = field_info(c)
            nopt = sum(1 for f in fields if not f[2])
            masks = list(range(2 ** nopt)) if nopt <= req.get("max_all", 5) else [0, 2 ** nopt - 1] + [1 << j for j in range(nopt)] + [rng.getrandbits(nopt) for _ in range(req.get("samples", 6))]
            for rep in range(req.get("reps", 1)):
                for vi, mask in enumerate(masks):
                    try:
                        w = gen_model(c, rng, 0, McpBase, variant=vi + 7 * rep, optional_mask=mask)
                        cases.append({"cls": k, "wire": tag(w)})
                    except Exception as e:
                        cases.append({"cls": k, "wire": tag({}), "generr": "%s: %s" % (type(e).__name__, e)})
        out["cases"] = cases
    elif op == "validate":
        res = []
        order = list(range(len(req["cases"])))
        if req.get("reverse"):
            order.reverse()
        slots = {}
        for i in order:
            case = req["cases"][i]
            c = classes.get(case["cls"])
            w = untag(case["wire"])
            r = {"cls": case["cls"], "stable": True}
            slots[i] = r
            if c is None:
                r.update(ok=False, exc="NoSuchClass", typed=None, dump=["null"])
                continue
            try:
                o = c.model_validate(w)
                d = o.model_dump(by_alias=True, exclude_none=True)
                r.update(ok=True, exc="", typed=typed_tree(o, McpBase), dump=tag(d))
                try:
                    if not added_ok_deep(o, w, McpBase):
                        r["stable"] = False
                        r["exc"] = "adds a member that is not the class's declared default"
                except Exception as e:
                    r["exc"] = "added_ok_deep: %s" % type(e).__name__
                try:
                    # wire names alone (absent optional members then appear as nulls)
                    r["dump_alias_only"] = tag(o.model_dump(by_alias=True))
                except Exception as e:
                    r["dump_alias_only"] = tag({"__raised__": type(e).__name__})
                if req.get("two_pass"):
                    scramble(o, McpBase)
            except Exception as e:
                r.update(ok=False, exc=type(e).__name__ + ": " + str(e)[:200], typed=None, dump=["null"])
        if req.get("two_pass"):
            # the same objects again, after every typed view of the first pass was edited in place
            for i in order:
                case = req["cases"][i]
                c = classes.get(case["cls"])
                r = slots[i]
                if c is None or not r["ok"]:
                    continue
                try:
                    o = c.model_validate(untag(case["wire"]))
                    r["stable"] = r["stable"] and tag(o.model_dump(by_alias=True, exclude_none=True)) == r["dump"]
                except Exception:
                    r["stable"] = False
        out["results"] = [slots[i] for i in range(len(req["cases"]))]
    elif op == "parse":
        from chuk_mcp.protocol.messages.json_rpc_message import parse_message
        res = []
        for case in req["cases"]:
            w = untag(case["wire"])
            try:
                o = parse_message(w)
                res.append({"ok": True, "cls": type(o).__name__, "dump": tag(o.model_dump(exclude_none=True)), "exc": ""})
            except Exception as e:
                res.append({"ok": False, "cls": "", "dump": ["null"], "exc": type(e).__name__})
        out["results"] = res
    elif op == "hooks":
        res = []
        for case in req["cases"]:
            c = classes[case["cls"]]
            try:
                c.model_validate(untag(case["wire"]))
                res.append({"rejected": False})
            except Exception as e:
                res.append({"rejected": True, "exc": type(e).__name__})
        out["results"] = res
    elif op == "via":
        out["results"] = run_via()
        out["dump_sites"] = dump_sites()
    elif op == "emit":
        out["results"] = run_emit(req["cases"])
        out["emit_sites"] = emit_sites()
    json.dump(out, sys.stdout)


# ---------------------------------------------------------------------------
# library code paths that turn a typed object into wire data (C10 WireNames)

def dump_sites():
    """functions of the package (outside the model base and the transports) whose source calls
    .model_dump( - the places where Python attribute names could leak"""
    import chuk_mcp
    import re
    sites = []
    for m in pkgutil.walk_packages(chuk_mcp.__path__, "chuk_mcp."):
        if ".transports." in m.name or m.name.endswith("mcp_pydantic_base") or ".server." in m.name or m.name.endswith("json_rpc_message"):
            continue
        try:
            mod = importlib.import_module(m.name)
        except Exception:
            continue
        for n, f in list(vars(mod).items()):
            objs = [(n, f)]
            if inspect.isclass(f) and f.__module__ == mod.__name__:
                objs = [(n + "." + k, v) for k, v in vars(f).items() if inspect.isfunction(v)]
            for name, fn in objs:
                if (inspect.isfunction(fn) or inspect.iscoroutinefunction(fn)) and getattr(fn, "__module__", None) == mod.__name__:
                    try:
                        src = inspect.getsource(fn)
                    except Exception:
                        continue
                    if re.search(r"\.model_dump\(", src) and not name.split(".")[-1].startswith("model_dump"):
                        sites.append(m.name + ":" + name)
    return sorted(set(sites))


def _keys(x, acc):
    if isinstance(x, dict):
        for k, v in x.items():
            acc.append(k)
            _keys(v, acc)
    elif isinstance(x, list):
        for v in x:
            _keys(v, acc)
    return acc


LEAKS = {"schema_", "meta"}


def run_via():
    import asyncio
    import math
    import anyio
    res = []

    def rec(helper, tree, expect_keys=()):
        ks = _keys(tree, [])
        res.append({"helper": helper, "bad": sorted({k for k in ks if k in LEAKS}), "missing": sorted(k for k in expect_keys if k not in ks)})

    class Cap:
        def __init__(self):
            self.msgs = []

        async def send(self, m):
            self.msgs.append(m.model_dump(exclude_none=True, by_alias=True) if hasattr(m, "model_dump") else m)

    async def go():
        from chuk_mcp.protocol.types import elicitation as el, tools as tt, content as ct
        from chuk_mcp.protocol.messages.tools.tool_result import ToolResult as MsgToolResult
        # elicitation
        sent = []

        async def send(m):
            sent.append(m)
            raise RuntimeError("stop here")

        h = el.ElicitationHandler(send)
        for mk in (lambda: el.ElicitationParams.model_validate({"message": "m", "schema": {"type": "object"}, "title": "t"}),
                   lambda: el.create_text_input_elicitation("Your name?", "name") if hasattr(el, "create_text_input_elicitation") else None):
            try:
                p = mk()
                if p is None:
                    continue
                try:
                    await h.request_user_input(p, timeout=0.1)
                except Exception:
                    pass
            except Exception:
                continue
        for m in sent:
            rec("ElicitationHandler.request_user_input", m, ("schema",))
        # tool results (types layer)
        try:
            tr = tt.ToolResult.model_validate({"content": [{"type": "text", "text": "x"}], "structuredContent": [{"type": "structured", "data": {"a": 1}, "schema": {"type": "object"}, "mimeType": "application/json"}]})
            rec("tool_result_to_dict", tt.tool_result_to_dict(tr), ("schema",))
        except Exception as e:
            res.append({"helper": "tool_result_to_dict", "bad": ["<raised %s>" % type(e).__name__], "missing": []})
        if hasattr(tt, "create_structured_tool_result"):
            try:
                tr = tt.create_structured_tool_result({"a": 1}, schema={"type": "object"})
                rec("tool_result_to_dict(create_structured_tool_result)", tt.tool_result_to_dict(tr), ("schema",))
            except Exception:
                pass
        # content
        try:
            c = ct.parse_content({"type": "text", "text": "x", "annotations": {"audience": ["user"], "priority": 0.5}})
            rec("content_to_dict", ct.content_to_dict(c))
        except Exception:
            pass
        # request builders that dump models into params
        from chuk_mcp.protocol.messages.completions import send_messages as cm
        from chuk_mcp.protocol.messages.sampling import send_messages as sm
        from chuk_mcp.protocol.messages.initialize import send_messages as im
        from chuk_mcp.protocol.messages.roots import send_messages as rm

        async def capture(coro_fn, *a, **kw):
            send_r, recv_r = anyio.create_memory_object_stream(math.inf)
            cap = Cap()
            try:
                with anyio.move_on_after(0.05):
                    await coro_fn(recv_r, cap, *a, **kw)
            except Exception:
                pass
            return cap.msgs

        for m in await capture(cm.send_completion_complete, cm.ResourceReference(uri="file:///{x}") if hasattr(cm, "ResourceReference") else {"type": "ref/resource", "uri": "file:///{x}"},
                               cm.ArgumentInfo(name="a", value="v") if hasattr(cm, "ArgumentInfo") else {"name": "a", "value": "v"}, timeout=0.01):
            rec("send_completion_complete", m)
        try:
            msgs = [sm.create_sampling_message("user", "hi")]
            prefs = sm.create_model_preferences(hints=["m"], cost_priority=0.5)
            for m in await capture(sm.send_sampling_create_message, msgs, 10, model_preferences=prefs, timeout=0.01):
                rec("send_sampling_create_message", m)
        except Exception:
            pass
        for m in await capture(im.send_initialize, timeout=0.01):
            rec("send_initialize", m)
        try:
            cap = Cap()
            roots = [rm.create_file_root("/tmp", "t")]
            r = await rm.handle_roots_list_request(roots, "id-1")
            rec("handle_roots_list_request", r.model_dump(exclude_none=True, by_alias=True) if hasattr(r, "model_dump") else r)
        except Exception:
            pass
        # models with _meta alias: dump through the library's own typed results
        try:
            t = MsgToolResult.model_validate({"content": [{"type": "text", "text": "x"}], "_meta": {"k": 1}})
            rec("ToolResult(by_alias)", t.model_dump(exclude_none=True, by_alias=True), ("_meta",))
        except Exception:
            pass

    asyncio.run(go())
    return res


# ---------------------------------------------------------------------------
# C02: emitters -> serialised forms -> the library's own parser

def env_class(d):
    """abstract envelope of a dumped message"""
    if not isinstance(d, dict):
        return {"obj": False}
    idv = d.get("id", "ABSENT")
    idc = "absent" if idv == "ABSENT" else ("null" if idv is None else ("bool" if isinstance(idv, bool) else ("int" if isinstance(idv, int) else ("str" if isinstance(idv, str) else "other"))))
    err = d.get("error")
    return {"obj": True, "ver": d.get("jsonrpc") if isinstance(d.get("jsonrpc"), str) else "absent", "id": idc,
            "method": "absent" if "method" not in d or d["method"] is None else ("str" if isinstance(d["method"], str) else "nonstr"),
            "params": "params" in d and d["params"] is not None, "result": "result" in d, "error": "error" in d,
            "codeInt": isinstance(err, dict) and isinstance(err.get("code"), int) and not isinstance(err.get("code"), bool),
            "msgStr": isinstance(err, dict) and isinstance(err.get("message"), str)}


def _emit_via_helper(em, idv, payload):
    """the message a sending helper writes, captured at the write stream"""
    import asyncio
    import anyio

    class Stop(Exception):
        pass

    class Cap:
        def __init__(self):
            self.msgs = []

        async def send(self, m):
            self.msgs.append(m)
            raise Stop()

    cap = Cap()

    async def go():
        from chuk_mcp.protocol.messages.send_message import send_message
        rs_send, rs = anyio.create_memory_object_stream(1)
        try:
            if em == "send_message":
                await send_message(rs, cap, "tools/call", payload, timeout=0.01, message_id=idv)
            elif em == "send_tools_call":
                from chuk_mcp.protocol.messages.tools.send_messages import send_tools_call
                await send_tools_call(rs, cap, "tool-x", payload or {}, timeout=0.01)
            elif em == "send_cancelled_notification":
                from chuk_mcp.protocol.messages.notifications import send_cancelled_notification
                await send_cancelled_notification(cap, idv, "why")
            elif em == "send_progress_notification":
                from chuk_mcp.protocol.messages.notifications import send_progress_notification
                await send_progress_notification(cap, idv, 0.5, 1.0, "half")
            elif em == "send_initialized_notification":
                from chuk_mcp.protocol.messages.initialize.send_messages import send_initialized_notification
                await send_initialized_notification(cap)
            elif em == "send_roots_list_changed.notifications":
                from chuk_mcp.protocol.messages.notifications import send_roots_list_changed_notification
                await send_roots_list_changed_notification(cap)
            elif em == "send_roots_list_changed.roots":
                from chuk_mcp.protocol.messages.roots.send_messages import send_roots_list_changed_notification
                await send_roots_list_changed_notification(cap)
        except Stop:
            pass

    asyncio.run(go())
    if not cap.msgs:
        raise RuntimeError("nothing written")
    return cap.msgs[0]


TRANSPORT_EMITTERS = ("stdio_writer", "http_post", "sse_post")


def transport_outputs(cases):
    """what the three transports' serialisers put on the wire for a request message (typed model for
    even case numbers, plain dict for odd ones): one session per transport, messages in case order;
    returns {case index: decoded wire object | exception}"""
    import anyio
    import httpx
    from harness import vloop
    from harness.drivers import stdio_drv, httpx_seam
    from harness.drivers.stdio_drv import idle
    from harness.drivers.sse_drv import FedStream
    from chuk_mcp.protocol.messages import json_rpc_message as J

    out = {}
    by = {k: [i for i, c in enumerate(cases) if c["emitter"] == k] for k in TRANSPORT_EMITTERS}

    def build(i):
        c = cases[i]
        idv, payload = untag(c["id"]), untag(c["payload"])
        if i % 4 == 0:
            return J.JSONRPCRequest(jsonrpc="2.0", id=idv, method="tools/call", params=payload)
        if i % 4 == 2:
            # built from the public class, the version member left to its default
            return J.JSONRPCRequest(id=idv, method="tools/call", params=payload)
        d = {"jsonrpc": "2.0", "id": idv, "method": "tools/call"}
        if payload is not None:
            d["params"] = payload
        return d

    async def stdio():
        from chuk_mcp.transports.stdio.stdio_client import StdioClient
        with stdio_drv.seam() as procs:
            client = StdioClient(stdio_drv.params())
            async with client:
                rs, ws = client.get_streams()
                for i in by["stdio_writer"]:
                    before = len(bytes(procs[0].stdin.data))
                    try:
                        await ws.send(build(i))
                        await idle(3)
                        new = bytes(procs[0].stdin.data)[before:]
                        lines = new.split(b"\n")
                        if len(lines) != 2 or lines[1] != b"":
                            raise ValueError("not exactly one line: %r" % new[:80])
                        out[i] = json.loads(lines[0].decode("utf-8"))
                    except Exception as e:
                        out[i] = e

    async def http(kind):
        bodies = []
        stream = FedStream()
        stream.feed(b"event: endpoint\ndata: /messages/?session_id=s1\n\n")

        async def handler(request):
            if request.method == "GET":
                return httpx.Response(200, headers={"content-type": "text/event-stream"}, stream=stream)
            bodies.append(request.content)
            return httpx.Response(202, content=b"")

        with httpx_seam.seam(handler):
            if kind == "http_post":
                from chuk_mcp.transports.http.http_client import http_client
                from chuk_mcp.transports.http.parameters import StreamableHTTPParameters
                cm = http_client(StreamableHTTPParameters(url="http://verif.invalid/mcp", timeout=0.05))
            else:
                from chuk_mcp.transports.sse.sse_client import sse_client
                from chuk_mcp.transports.sse.parameters import SSEParameters
                cm = sse_client(SSEParameters(url="http://verif.invalid", timeout=0.05))
            async with cm as (rs, ws):
                for i in by[kind]:
                    n = len(bodies)
                    try:
                        await ws.send(build(i))
                        await anyio.sleep(0.2)          # past the transport's own wait for an answer
                        stdio_drv.drain(rs)             # the synthesised terminals must not fill the read stream
                        if len(bodies) != n + 1:
                            raise ValueError("%d POSTs for one message" % (len(bodies) - n))
                        out[i] = json.loads(bodies[n].decode("utf-8"))
                    except Exception as e:
                        out[i] = e

    async def main():
        if by["stdio_writer"]:
            await stdio()
        for kind in ("http_post", "sse_post"):
            if by[kind]:
                await http(kind)

    if any(by.values()):
        vloop.run(main)
    return out


def emit_sites():
    """functions of the package whose source builds a JSON-RPC message (a "jsonrpc" literal, a
    create_* constructor call or a typed message class call): the emitter census of C02"""
    import chuk_mcp
    import re
    pat = re.compile(r'"jsonrpc"|\bcreate_(?:request|notification|response|error_response)\(|\bJSONRPC(?:Request|Response|Error|Notification|Message)\(')
    sites = []
    for m in pkgutil.walk_packages(chuk_mcp.__path__, "chuk_mcp."):
        try:
            mod = importlib.import_module(m.name)
        except Exception:
            continue
        for n, f in list(vars(mod).items()):
            objs = [(n, f)]
            if inspect.isclass(f) and f.__module__ == mod.__name__:
                objs = [(n + "." + k, v) for k, v in vars(f).items() if inspect.isfunction(v) or isinstance(v, (classmethod, staticmethod))]
            for name, fn in objs:
                fn = getattr(fn, "__func__", fn)
                if inspect.isfunction(fn) and getattr(fn, "__module__", None) == mod.__name__:
                    try:
                        src = inspect.getsource(fn)
                    except Exception:
                        continue
                    if pat.search(src):
                        sites.append(m.name + ":" + name)
    return sorted(set(sites))


def run_emit(cases):
    from chuk_mcp.protocol.messages import json_rpc_message as J
    res = []
    wire = transport_outputs(cases)
    for ci, c in enumerate(cases):
        em, idv, payload = c["emitter"], untag(c["id"]), untag(c["payload"])
        r = {"emitter": em, "built": True}
        try:
            if em in TRANSPORT_EMITTERS:
                m = wire[ci]
                if isinstance(m, Exception):
                    raise m
            elif em == "create_request":
                m = J.create_request("tools/call", payload, idv)
            elif em == "create_request_token":
                m = J.create_request("tools/call", payload, idv, progress_token="tok-1")
            elif em == "create_notification":
                m = J.create_notification("notifications/message", payload)
            elif em == "create_response":
                m = J.create_response(idv, payload)
            elif em == "create_error_response":
                m = J.create_error_response(idv, -32001, "boom é", payload)
            elif em == "JSONRPCRequest":
                m = J.JSONRPCRequest(jsonrpc="2.0", id=idv, method="m", params=payload)
            elif em == "JSONRPCResponse":
                m = J.JSONRPCResponse(jsonrpc="2.0", id=idv, result=payload)
            elif em == "JSONRPCError":
                m = J.JSONRPCError(jsonrpc="2.0", id=idv, error={"code": -1, "message": "m", "data": payload})
            elif em == "JSONRPCNotification":
                m = J.JSONRPCNotification(jsonrpc="2.0", method="n", params=payload)
            elif em == "legacy.create_request":
                m = J.JSONRPCMessage.create_request("m", payload, idv)
            elif em == "legacy.create_notification":
                m = J.JSONRPCMessage.create_notification("n", payload)
            elif em == "legacy.create_response":
                m = J.JSONRPCMessage.create_response(idv, payload)
            elif em == "legacy.create_error_response":
                m = J.JSONRPCMessage.create_error_response(idv, -32002, "bad", payload)
            elif em in ("send_message", "send_tools_call", "send_cancelled_notification", "send_progress_notification",
                        "send_initialized_notification", "send_roots_list_changed.notifications", "send_roots_list_changed.roots"):
                m = _emit_via_helper(em, idv, payload)
            elif em == "handle_roots_list_request":
                import asyncio
                from chuk_mcp.protocol.messages.roots.send_messages import handle_roots_list_request, Root
                m = asyncio.run(handle_roots_list_request([Root(uri="file:///tmp/verif", name="r\u2028")], idv))
            elif em.startswith("handle_elicitation_request"):
                import asyncio
                from chuk_mcp.protocol.types.elicitation import ElicitationClient

                async def ask(message, schema, title=None):
                    if em.endswith(":fails"):
                        raise RuntimeError("no user \u00e9")
                    return payload if payload is not None else {}

                m = asyncio.run(ElicitationClient(ask).handle_elicitation_request({"jsonrpc": "2.0", "id": idv, "method": "elicitation/create", "params": {"message": "m", "schema": {}}}))
            elif em == "batch.rejection":
                from chuk_mcp.protocol.features.batching import BatchProcessor
                m = BatchProcessor("2025-06-18").create_batch_rejection_error(idv)
            elif em.startswith("batch.item_error"):
                from chuk_mcp.protocol.features.batching import BatchProcessor
                kind = em.split(":")[1]

                class Boom(Exception):
                    pass

                exc = Boom("boom \u00e9")
                if kind == "intcode":
                    exc.code = -32001
                elif kind == "strcode":
                    exc.code = "e3q8"
                elif kind == "nullcode":
                    exc.code = None
                elif kind == "floatcode":
                    exc.code = 1.5

                def handler(_item, exc=exc):
                    raise exc

                out = BatchProcessor("2025-03-26").process_message_data([{"jsonrpc": "2.0", "id": idv, "method": "m", "params": payload}], handler)
                m = out[0]
            else:
                raise KeyError(em)
        except Exception as e:
            r.update(built=False, exc=type(e).__name__ + ": " + str(e)[:120])
            res.append(r)
            continue
        forms = {}
        if isinstance(m, dict):
            class _D:
                def __init__(self, d):
                    self.d = d

                def model_dump(self, **_k):
                    return self.d

                def model_dump_json(self, **_k):
                    return json.dumps(self.d)
            m = _D(m)
        try:
            forms["dump"] = m.model_dump(exclude_none=True)
        except Exception as e:
            forms["dump"] = {"__raised__": type(e).__name__}
        try:
            forms["json"] = json.loads(m.model_dump_json(exclude_none=True))
        except Exception as e:
            forms["json"] = {"__raised__": type(e).__name__}
        r["forms"] = {}
        for name, d in forms.items():
            f = {"env": env_class(d), "tree": tag(d)}
            try:
                pm = J.parse_message(json.loads(json.dumps(d)))
                pd = pm.model_dump(exclude_none=True)
                f["parsed"] = {"env": env_class(pd), "tree": tag(pd), "cls": type(pm).__name__}
                # the other reading the library offers: the unified class, narrowed to the specific one
                # and widened again, must say the same
                try:
                    uni = J.JSONRPCMessage.model_validate(json.loads(json.dumps(d)))
                    spec_ = uni.to_specific_type()
                    back = J.JSONRPCMessage.from_specific_type(spec_)
                    f["parsed"]["unifiedSame"] = bool(tag(spec_.model_dump(exclude_none=True)) == tag(pd) and tag(back.model_dump(exclude_none=True)) == tag(pd)
                                                      and tag(uni.model_dump(exclude_none=True)) == tag(pd))
                except Exception as e:
                    f["parsed"]["unifiedSame"] = False
                    f["parsed"]["unifiedExc"] = type(e).__name__
            except Exception as e:
                f["parsed"] = {"env": {"obj": False}, "tree": ["null"], "cls": "rejected:" + type(e).__name__}
            r["forms"][name] = f
        res.append(r)
    return res


if __name__ == "__main__":
    main()
