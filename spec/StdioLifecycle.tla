--------------------------- MODULE StdioLifecycle ---------------------------
(***************************************************************************)
(* Shutdown of the stdio client (C16):                                     *)
(*   chuk_mcp/transports/stdio/stdio_client.py  __aenter__, __aexit__,     *)
(*   _terminate_process                                                    *)
(*                                                                         *)
(* The context is left normally, by an exception, or because the           *)
(* surrounding scope was cancelled (outer cancellation / a timeout around  *)
(* the context).  __aexit__ runs: close the outgoing stream, cancel and    *)
(* join the task group, terminate the child, wait <= 1 grace period, kill, *)
(* wait <= 1 grace period.  Under outer cancellation every checkpoint of   *)
(* that sequence re-raises the cancellation; the termination steps are     *)
(* shielded from it (deviation ExitAbortedByCancellation: they are not,    *)
(* and the remaining steps are skipped).                                   *)
(* The child is an environment process: it may exit by itself at any time, *)
(* obey or ignore SIGTERM; SIGKILL cannot be ignored.                      *)
(***************************************************************************)
EXTENDS Naturals, TLC

CONSTANTS ExitAbortedByCancellation

Behaviours == {"obeysTerm", "ignoresTerm", "exitsEarly"}
Paths == {"normal", "exception", "outerCancel", "timeoutAround"}

VARIABLES beh, path, phase, child, elapsed, termSent, killSent
vars == <<beh, path, phase, child, elapsed, termSent, killSent>>

Init ==
  /\ beh \in Behaviours /\ path \in Paths
  /\ phase = "body" /\ child = "running" /\ elapsed = 0 /\ termSent = FALSE /\ killSent = FALSE

Cancelled == path \in {"outerCancel", "timeoutAround"}

\* the child dies on its own (end of its script, closed pipe, ...) and is reaped by the loop
ChildExits ==
  /\ child = "running" /\ beh = "exitsEarly"
  /\ child' = "reaped"
  /\ UNCHANGED <<beh, path, phase, elapsed, termSent, killSent>>

BeginExit ==
  /\ phase = "body" /\ phase' = "closeOutgoing"
  /\ UNCHANGED <<beh, path, child, elapsed, termSent, killSent>>

\* close outgoing stream, cancel + join the reader/writer tasks; the join is a checkpoint
JoinTasks ==
  /\ phase = "closeOutgoing"
  /\ phase' = IF Cancelled /\ ExitAbortedByCancellation THEN "returned" ELSE "terminate"
  /\ UNCHANGED <<beh, path, child, elapsed, termSent, killSent>>

Terminate ==
  /\ phase = "terminate"
  /\ IF child = "running"
     THEN /\ termSent' = TRUE
          /\ child' = IF beh = "ignoresTerm" THEN "running" ELSE "reaped"      \* dies and is waited for
          /\ phase' = IF beh = "ignoresTerm" THEN "waitTerm" ELSE "returned"
     ELSE /\ phase' = "returned" /\ UNCHANGED <<termSent, child>>              \* already gone
  /\ UNCHANGED <<beh, path, elapsed, killSent>>

\* the first grace period expires
TermTimeout ==
  /\ phase = "waitTerm" /\ elapsed' = elapsed + 1 /\ phase' = "kill"
  /\ UNCHANGED <<beh, path, child, termSent, killSent>>

Kill ==
  /\ phase = "kill" /\ killSent' = TRUE /\ child' = "reaped" /\ phase' = "returned"
  /\ UNCHANGED <<beh, path, elapsed, termSent>>

Next == ChildExits \/ BeginExit \/ JoinTasks \/ Terminate \/ TermTimeout \/ Kill
Spec == Init /\ [][Next]_vars

-----------------------------------------------------------------------------
Returned == phase = "returned"
NoChildLeftBehind == Returned => child = "reaped"
BoundedExit == elapsed <= 2
KillOnlyAfterTerm == killSent => termSent /\ elapsed >= 1
=============================================================================
