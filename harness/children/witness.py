"""Witness child for C20: records its argv and environment next to itself, then speaks enough MCP
for the host entry points (initialize, ping, tools/resources/prompts list)."""
import json
import os
import sys

here = os.path.dirname(os.path.abspath(__file__))
with open(os.path.join(here, "witness.%d.json" % os.getpid()), "w") as f:
    json.dump({"argv": sys.argv[1:], "env": dict(os.environ), "exe": sys.executable}, f)


def out(o):
    sys.stdout.write(json.dumps(o) + "\n")
    sys.stdout.flush()


for line in sys.stdin:
    line = line.strip()
    if not line:
        continue
    try:
        m = json.loads(line)
    except Exception:
        continue
    if not isinstance(m, dict) or "id" not in m:
        if isinstance(m, dict) and m.get("method") == "notifications/initialized":
            with open(os.path.join(here, "initialized.%d" % os.getpid()), "w") as f:
                f.write("1")
        continue
    meth = m.get("method")
    if meth == "initialize":
        res = {"protocolVersion": m["params"]["protocolVersion"], "capabilities": {"tools": {}, "resources": {}, "prompts": {}}, "serverInfo": {"name": "witness", "version": "1"}}
    elif meth == "tools/list":
        res = {"tools": []}
    elif meth == "resources/list":
        res = {"resources": []}
    elif meth == "prompts/list":
        res = {"prompts": []}
    else:
        res = {}
    out({"jsonrpc": "2.0", "id": m["id"], "result": res})
