------------------------------- MODULE Pipe -------------------------------
(***************************************************************************)
(* What every carrier of chuk-mcp is, seen from the client (C15): an       *)
(* append-only sequence of messages the server put on it (sent) and an     *)
(* append-only sequence of messages handed to the client (delivered) that  *)
(* is always a prefix of the first - nothing lost, nothing invented,       *)
(* nothing reordered, nothing altered.  One step may append to both.       *)
(* Channel (the abstract carrier of C15) and the three transport           *)
(* specifications StdioFraming, HttpTransport and SseTransport each        *)
(* implement Pipe under a refinement mapping; TLC checks                   *)
(* `<instance>!Spec` as a property of each of them.                        *)
(***************************************************************************)
EXTENDS Naturals, Sequences

VARIABLES sent, delivered

IsPrefixOf(a, b) == Len(a) <= Len(b) /\ SubSeq(b, 1, Len(a)) = a

Init == delivered = <<>>               \* the server may already have written something
Next ==
  /\ IsPrefixOf(sent, sent')            \* what was sent stays sent
  /\ IsPrefixOf(delivered, delivered')  \* what was delivered stays delivered
  /\ IsPrefixOf(delivered', sent')      \* and is a prefix of what was sent
Spec == Init /\ IsPrefixOf(delivered, sent) /\ [][Next]_<<sent, delivered>>
=============================================================================
