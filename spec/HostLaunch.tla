----------------------------- MODULE HostLaunch -----------------------------
(***************************************************************************)
(* Host entry points (C20):                                                *)
(*   chuk_mcp/config.py                         load_config                *)
(*   chuk_mcp/__main__.py                       test_server                *)
(*   chuk_mcp/mcp_client/host/server_manager.py run_command                *)
(* Each entry point loads the named server(s) from a configuration file,   *)
(* spawns exactly the configured command with the configured arguments and *)
(* environment, and reaches the initialize handshake.  A malformed         *)
(* configuration surfaces as the documented exception (loader) or as a     *)
(* reported failure without any spawn (CLI test, runner).                  *)
(* Deviation RunnerPassesTuple: the runner hands the loader's              *)
(* (params, timeout) pair on as if it were the parameters.                 *)
(***************************************************************************)
EXTENDS Naturals, Sequences, FiniteSets, TLC

CONSTANTS NServers, RunnerPassesTuple

Entries == {"loader", "cliTest", "runner"}
Malformed == {"none", "missingFile", "invalidJson", "unknownServer"}
ArgClasses == {"none", "plain", "spaces", "quotes", "unicode", "empty", "many"}
EnvClasses == {"absent", "empty", "values"}
TimeoutClasses == {"absent", "int", "float", "stringNumber"}

VARIABLES entry, malformed, cfg, phase, loaded, spawned, handshakes, outcome
vars == <<entry, malformed, cfg, phase, loaded, spawned, handshakes, outcome>>

Servers == 1..NServers
Init ==
  /\ entry \in Entries /\ malformed \in Malformed
  /\ cfg \in [Servers -> [args : ArgClasses, env : EnvClasses, timeout : TimeoutClasses]]
  /\ phase = "start" /\ loaded = {} /\ spawned = <<>> /\ handshakes = {} /\ outcome = "none"

\* the loader entry loads one server; the CLI test one; the runner all of them
Targets == IF entry = "runner" THEN Servers ELSE {1}

Load ==
  /\ phase = "start"
  /\ IF malformed # "none"
     THEN /\ outcome' = (IF entry = "loader"
                         THEN CASE malformed = "missingFile" -> "FileNotFoundError"
                                [] malformed = "invalidJson" -> "JSONDecodeError"
                                [] malformed = "unknownServer" -> "ValueError"
                         ELSE "reportedFailure")
          /\ phase' = "done" /\ UNCHANGED loaded
     ELSE /\ loaded' = Targets
          /\ phase' = IF entry = "loader" THEN "done" ELSE "spawn"
          /\ outcome' = IF entry = "loader" THEN "params" ELSE outcome
  /\ UNCHANGED <<entry, malformed, cfg, spawned, handshakes>>

\* spawn exactly the configured command line and environment for the next loaded server
Spawn ==
  /\ phase = "spawn" /\ Len(spawned) < Cardinality(loaded)
  /\ IF entry = "runner" /\ RunnerPassesTuple
     THEN /\ phase' = "done" /\ outcome' = "reportedFailure" /\ UNCHANGED spawned      \* 'tuple' object has no attribute 'command'
     ELSE /\ spawned' = Append(spawned, [server |-> Len(spawned) + 1, args |-> cfg[Len(spawned) + 1].args, env |-> cfg[Len(spawned) + 1].env])
          /\ UNCHANGED <<phase, outcome>>
  /\ UNCHANGED <<entry, malformed, cfg, loaded, handshakes>>

Initialize ==
  /\ phase = "spawn" /\ \E i \in DOMAIN spawned : spawned[i].server \notin handshakes
  /\ handshakes' = handshakes \cup {spawned[CHOOSE i \in DOMAIN spawned : spawned[i].server \notin handshakes].server}
  /\ UNCHANGED <<entry, malformed, cfg, phase, loaded, spawned, outcome>>

Finish ==
  /\ phase = "spawn" /\ Len(spawned) = Cardinality(loaded) /\ handshakes = loaded
  /\ phase' = "done" /\ outcome' = "connected"
  /\ UNCHANGED <<entry, malformed, cfg, loaded, spawned, handshakes>>

Next == Load \/ Spawn \/ Initialize \/ Finish
Spec == Init /\ [][Next]_vars

-----------------------------------------------------------------------------
Done == phase = "done"
LaunchesExactlyConfigured ==
  Done /\ malformed = "none" /\ entry # "loader" =>
     /\ outcome = "connected"
     /\ Len(spawned) = Cardinality(Targets)
     /\ \A i \in DOMAIN spawned : spawned[i].args = cfg[spawned[i].server].args /\ spawned[i].env = cfg[spawned[i].server].env
     /\ handshakes = Targets
LoaderReturnsConfigured == Done /\ malformed = "none" /\ entry = "loader" => outcome = "params"
MalformedSurfaces ==
  Done /\ malformed # "none" =>
     /\ spawned = <<>>
     /\ (entry = "loader" => outcome = CASE malformed = "missingFile" -> "FileNotFoundError"
                                          [] malformed = "invalidJson" -> "JSONDecodeError"
                                          [] malformed = "unknownServer" -> "ValueError")
     /\ (entry # "loader" => outcome = "reportedFailure")
=============================================================================
