------------------------- MODULE GenSessionStore -------------------------
(* Operation sequences generated from SessionStore: the history is outside the VIEW, every *)
(* transition prints its shortest history; the harness keeps the maximal ones and executes *)
(* them against the real session manager / protocol handler.                               *)
EXTENDS SessionStore, Sequences, Json
CONSTANT MaxLen

VARIABLE hist
H(r) == hist' = Append(hist, r)

GNext ==
  \/ \E c \in Clients, v \in Versions : Create(c, v) /\ H([op |-> "Create", c |-> c, v |-> v])
  \/ \E c \in Clients, v \in Versions, s \in Sids \cup {NoSid}, a \in ServerSup :
        HandleInitialize(c, v, s, a) /\ H([op |-> "HandleInitialize", c |-> c, v |-> v, s |-> s])
  \/ \E s \in Sids : \/ Get(s) /\ H([op |-> "Get", s |-> s])
                     \/ Touch(s) /\ H([op |-> "Touch", s |-> s])
                     \/ Delete(s) /\ H([op |-> "Delete", s |-> s])
  \/ \E s \in Sids, m \in BOOLEAN : HandleRequest(s, m) /\ H([op |-> "HandleRequest", s |-> s, m |-> m])
  \/ \E a \in Ages : Cleanup(a) /\ H([op |-> "Cleanup", a |-> a])
  \/ ListAndMutate /\ H([op |-> "List"])
  \/ Count /\ H([op |-> "Count"])
  \/ Clear /\ H([op |-> "Clear"])
  \/ \E d \in 1..2 : Tick(d) /\ H([op |-> "Tick", d |-> d])

GInit == Init /\ hist = <<>>
GSpec == GInit /\ [][GNext]_<<vars, hist>>
View == <<store, clock, nextSid>>
Bound == Len(hist) <= MaxLen
Emit == PrintT(<<"PATH", ToJson(hist')>>)
=============================================================================
