"""Driver for the RequestWait specification: executes environment schedules against the real
chuk_mcp.protocol.messages.send_message.send_message under the virtual clock and records the
observable events (Appendix C of DESIGN.md).

A schedule supplies only the environment's choices (when callers start, what arrives on the
read stream and when, when tokens are cancelled).  What the code does - what it writes, which
callback it invokes, how each call completes and when - is observed.
"""
import json
import logging
import math
import random
import sys
import uuid
import contextvars

import anyio

from harness import vloop

logging.disable(logging.CRITICAL)

UNIT = 0.01          # trace grid: 10 ms
EPS = 1e-7
GROUP = 32
CALLERS = ["a", "b", "c", "d"]
DEFAULT_CFG = {"T": 100, "tok": False, "cb": False, "raiseAt": 0}


def grid(t):
    return int(round(t / UNIT))


def real_times(steps):
    """Concrete instants for the schedule's steps.  Steps with the same nominal time form a
    group; a step marked 'before' happens a hair before every timer due at that instant,
    'after' a hair after, and the hairs grow with the group index so that the drift timers
    inherit from earlier steps never reorders a later tie."""
    out = []
    g = -1
    last = None
    idx = 0
    for s in steps:
        if last is None or s["t"] != last:
            g += 1
            idx = 0
            last = s["t"]
        else:
            idx += 1
        off = ((g + 1) * GROUP + idx) * EPS
        if s.get("tie", "after") == "before":
            off = -((g + 1) * GROUP - idx) * EPS
        out.append(max(0.0, s["t"] + off) if s["t"] > 0 or off > 0 else 0.0)
    return out


class _Uuid:
    def __init__(self, seed):
        self.rng = random.Random(seed)

    def __call__(self):
        return uuid.UUID(int=self.rng.getrandbits(128), version=4)


ID_SHAPES = ["uuid", "str", "digits", "digits0", "text", "int"]


def concrete_id(shape, c, rng):
    if shape == "str":
        return "req-%s-%d" % (c, rng.randrange(10**6))
    if shape == "digits":
        return str(rng.randrange(1, 10**6)) + str(CALLERS.index(c))
    if shape == "digits0":
        return "00" + str(rng.randrange(10**4)) + str(CALLERS.index(c))
    if shape == "text":
        return "id é  %s" % c
    if shape == "int":
        return rng.randrange(1, 10**6) * 10 + CALLERS.index(c)
    raise ValueError(shape)


def twin_id(x):
    """the id of the other JSON type with the same text: 7 <-> "7" (None if there is none)"""
    if isinstance(x, bool):
        return None
    if isinstance(x, int):
        return str(x)
    if isinstance(x, str) and x.isdigit() and str(int(x)) == x:
        return int(x)
    return None


PARAM_SHAPES = ["none", "empty", "flat", "nested", "meta"]


def concrete_params(shape):
    if shape == "none":
        return None
    if shape == "empty":
        return {}
    if shape == "flat":
        return {"name": "x", "n": 1, "z": None}
    if shape == "nested":
        return {"a": {"b": [1, None, {"c": " "}]}, "cursor": "abc"}
    if shape == "meta":
        return {"_meta": {"k": 1}, "uri": "file:///x"}
    raise ValueError(shape)


def run_schedule(sched, seed=0):
    """Execute one schedule; returns the trace record {cfg, solo, ev}."""
    from chuk_mcp.protocol.messages import send_message as sm_mod
    from chuk_mcp.protocol.messages.send_message import (
        send_message,
        CancellationToken,
        CancelledError,
    )
    from chuk_mcp.protocol.messages.json_rpc_message import parse_message
    from chuk_mcp.protocol.types.errors import RetryableError, NonRetryableError

    rng = random.Random(seed)
    callers = sched["callers"]
    steps = sorted(sched["steps"], key=lambda s: s["t"])  # stable
    times = real_times(steps)
    events = []
    cfg = {}
    for c in CALLERS:
        if c in callers:
            k = callers[c]
            cfg[c] = {
                "T": grid(k["T"]),
                "tok": bool(k.get("tok")),
                "cb": bool(k.get("cb")),
                "raiseAt": int(k.get("raiseAt", 0)),
            }
        else:
            cfg[c] = dict(DEFAULT_CFG)

    # deterministic uuid4 so that ids / progress tokens generated inside send_message are
    # known to the driver before the call starts (arrivals may precede the request)
    gen = _Uuid(seed)
    predict = _Uuid(seed)
    ids, tokens, methods, params = {}, {}, {}, {}
    for s in steps:
        if s["a"] == "Start":
            c = s["c"]
            k = callers[c]
            if k.get("cb"):
                tokens[c] = str(predict())
            shape = k.get("idshape", "str")
            if shape == "uuid":
                ids[c] = str(predict())
            elif shape.startswith("twin:"):
                ids[c] = None      # resolved below
            else:
                ids[c] = concrete_id(shape, c, rng)
            methods[c] = k.get("method", "tools/call")
            params[c] = concrete_params(k.get("params", "flat"))
    for c in list(ids):
        if ids[c] is None:
            base = ids.get(callers[c]["idshape"].split(":")[1])
            t = twin_id(base)
            ids[c] = t if t is not None else "tw-%s" % c
    for c in callers:
        ids.setdefault(c, "never-%s" % c)
    other_id = "someone-else"
    other_token = "foreign-token"
    payloads = {}   # arrival index -> payload to compare with

    def ev(e, **kw):
        d = {"e": e, "t": grid(vloop.now())}
        d.update(kw)
        events.append(d)

    # ids and progress tokens the LIBRARY generates are predicted (patched uuid4) so that arrivals
    # may precede the request; what it really wrote is learned at the write (the writing task is
    # the caller's).  A library that generates ids another way is not wrong: a run whose arrivals
    # named a caller before its request existed is then not judged (unpredicted).
    cur = contextvars.ContextVar("verif_caller", default=None)
    wrote = set()
    named_early = set()
    unpredicted = []

    class Wire:
        """the write stream handed to send_message: records at the instant of the write"""

        async def send(self, msg):
            d = msg.model_dump(exclude_none=True) if hasattr(msg, "model_dump") else msg
            meth = d.get("method")
            if meth == "notifications/cancelled":
                rid = (d.get("params") or {}).get("requestId")
                who = [c for c in callers if ids[c] == rid and type(ids[c]) is type(rid)]
                ok = "id" not in d and d.get("jsonrpc") == "2.0"
                ev("Wire", c=who[0] if who else "other", w="cancelnotif", ok=bool(ok and who))
                return
            me = cur.get()
            if me is not None and me not in wrote and callers[me].get("idshape", "str") == "uuid" and meth == methods.get(me):
                got_id = d.get("id")
                got_tok = ((d.get("params") or {}).get("_meta") or {}).get("progressToken") if isinstance(d.get("params"), dict) else None
                if isinstance(got_id, (str, int)) and not isinstance(got_id, bool) and got_id != ids[me]:
                    if me in named_early:
                        unpredicted.append(me)
                    ids[me] = got_id
                if callers[me].get("cb") and isinstance(got_tok, (str, int)) and got_tok != tokens.get(me):
                    if me in named_early:
                        unpredicted.append(me)
                    tokens[me] = got_tok
            if me is not None:
                wrote.add(me)
            who = [c for c in callers if ids[c] == d.get("id") and type(ids[c]) is type(d.get("id"))]
            if me in who:
                who = [me]          # two callers holding the same id: the writer is known
            if not who:
                ev("Wire", c="other", w="request", ok=False)
                return
            c = who[0]
            want = params[c]
            got = d.get("params")
            if callers[c].get("cb"):
                # the library adds _meta.progressToken when a callback is given
                want = json.loads(json.dumps(want)) if want is not None else {}
                want.setdefault("_meta", {})["progressToken"] = tokens[c]
            ok = (
                d.get("jsonrpc") == "2.0"
                and meth == methods[c]
                and _strip_none(got) == _strip_none(want)
            )
            ev("Wire", c=c, w="request", ok=bool(ok))

    def make_message(s, n):
        k = s["k"]
        who = s.get("id", "other")
        if who in callers and who not in wrote:
            named_early.add(who)
        rid = ids[who] if who in callers else other_id
        if s.get("twin") in callers and who not in callers:
            t = twin_id(ids[s["twin"]])
            if t is not None and all(not (t == ids[c] and type(t) is type(ids[c])) for c in callers):
                rid = t
        if k == "resp":
            pl = {"marker": n, "content": [{"type": "text", "text": "ré "}], "nil": None, "nested": {"x": [None, 1]}}
            if s.get("payload") == "scalarish":
                pl = {"marker": n}
            payloads[n] = pl
            return parse_message({"jsonrpc": "2.0", "id": rid, "result": pl})
        if k == "err":
            code = s.get("code", -32603)
            e = {"code": code, "message": "m%d" % n}
            if s.get("data", True):
                e["data"] = {"marker": n}
            payloads[n] = e
            return parse_message({"jsonrpc": "2.0", "id": rid, "error": e})
        if k == "sreq":
            p = {"marker": n, "messages": []}
            payloads[n] = p
            return parse_message({"jsonrpc": "2.0", "id": rid, "method": "sampling/createMessage", "params": p})
        if k == "notif":
            return parse_message({"jsonrpc": "2.0", "method": "notifications/message", "params": {"marker": n, "level": "info", "data": "x"}})
        if k == "prog":
            tok = tokens.get(who, other_token) if who in callers else other_token
            p = {"progressToken": tok}
            fields = s.get("fields", "all")
            if fields != "none":
                p["progress"] = n
            if fields == "all":
                p["total"] = 100.0
                p["message"] = "step %d" % n
            payloads[n] = p
            return parse_message({"jsonrpc": "2.0", "method": "notifications/progress", "params": p})
        if k == "batch":
            inner = s.get("inner", "notifs")
            if inner == "resps":
                own = [c for c in callers]
                rid2 = ids[own[0]] if own else other_id
                return [parse_message({"jsonrpc": "2.0", "id": rid2, "result": {"marker": n}})]
            return [
                parse_message({"jsonrpc": "2.0", "method": "notifications/message", "params": {"marker": n}}),
                parse_message({"jsonrpc": "2.0", "method": "notifications/tools/list_changed"}),
            ]
        raise ValueError(k)

    async def main():
        send_r, recv_r = anyio.create_memory_object_stream(math.inf)
        wire = Wire()
        toks = {c: CancellationToken() for c in callers if callers[c].get("tok")}
        narr = 0

        async def caller(c):
            cur.set(c)
            k = callers[c]
            ncb = 0

            async def cb(progress, total, message):
                nonlocal ncb
                ncb += 1
                # which arrival is this?  progress carries the arrival index unless absent
                n = progress if isinstance(progress, int) and progress in payloads else 0
                sure = n != 0
                if n == 0:
                    # fields == "none": progress defaults to 0; identify by order
                    cands = [i for i, p in payloads.items() if isinstance(p, dict) and p.get("progressToken") == tokens.get(c) and "progress" not in p and i not in seen_prog]
                    n = cands[0] if cands else 0
                seen_prog.add(n)
                p = payloads.get(n, {})
                ok = (
                    progress == p.get("progress", 0)
                    and total == p.get("total")
                    and message == p.get("message")
                )
                # sure = the notification named its arrival; otherwise n is a guess by order (with several
                # callers an earlier field-less progress may have been consumed by another waiter)
                ev("Progress", c=c, n=n, ok=bool(ok), sure=bool(sure))
                if k.get("raiseAt") and ncb == k["raiseAt"]:
                    raise RuntimeError("callback failure injected by the schedule")

            seen_prog = set()
            ev("Start", c=c)
            kw = {}
            if k.get("idshape", "str") != "uuid":
                kw["message_id"] = ids[c]
            if c in toks:
                kw["cancellation_token"] = toks[c]
            if k.get("cb"):
                kw["progress_callback"] = cb
            p = params[c]
            p = json.loads(json.dumps(p)) if p is not None else None
            try:
                res = await send_message(recv_r, wire, methods[c], p, timeout=k["T"], **kw)
            except TimeoutError:
                ev("Complete", c=c, kind="timeout", n=0, ok=True)
            except CancelledError as e:
                ev("Complete", c=c, kind="cancelled", n=0, ok=str(ids[c]) in str(e))
            except (RetryableError, NonRetryableError) as e:
                n = 0
                txt = str(e)
                for i, pl in payloads.items():
                    if isinstance(pl, dict) and pl.get("message") == "m%d" % i and ("JSON-RPC Error: m%d (code:" % i) in txt:
                        n = i
                pl = payloads.get(n, {})
                ok = n != 0 and e.code == pl.get("code") and type(e.code) is int
                ev("Complete", c=c, kind="error", n=n, ok=bool(ok))
            except BaseException as e:  # noqa
                if isinstance(e, (KeyboardInterrupt, SystemExit)):
                    raise
                ev("Complete", c=c, kind="other", n=0, ok=False, exc=type(e).__name__)
            else:
                n = 0
                ok = False
                if isinstance(res, dict):
                    if "marker" in res:
                        n = res["marker"]
                        ok = res == payloads.get(n)
                    elif isinstance(res.get("params"), dict) and "marker" in res["params"]:
                        n = res["params"]["marker"]       # a request's dump was returned
                        ok = True
                    elif isinstance(res.get("result"), dict) and "marker" in res["result"]:
                        n = res["result"]["marker"]
                ev("Complete", c=c, kind="result", n=n if isinstance(n, int) else 0, ok=bool(ok))

        async with anyio.create_task_group() as tg:
            for s, rt in zip(steps, times):
                await vloop.sleep_until(rt)
                a = s["a"]
                if a == "Start":
                    tg.start_soon(caller, s["c"])
                elif a == "Arrive":
                    narr += 1
                    m = make_message(s, narr)
                    ev("Arrive", k=s["k"], id=s.get("id", "other") if s["k"] not in ("notif", "batch") else "other", n=narr)
                    send_r.send_nowait(m)
                elif a == "Cancel":
                    ev("Cancel", c=s["c"])
                    toks[s["c"]].cancel()
                else:
                    raise ValueError(a)
        ev("End", qlen=recv_r.statistics().current_buffer_used)

    old = uuid.uuid4
    uuid.uuid4 = gen
    try:
        vloop.run(main)
    finally:
        uuid.uuid4 = old
    started = [s["c"] for s in steps if s["a"] == "Start"]
    if unpredicted:
        return {"unpredicted": sorted(set(unpredicted))}
    return {"cfg": cfg, "solo": len(started) <= 1, "ev": events}


def _strip_none(x):
    if isinstance(x, dict):
        return {k: _strip_none(v) for k, v in x.items() if v is not None}
    if isinstance(x, list):
        return [_strip_none(v) for v in x]
    return x


# ---------------------------------------------------------------------------
# schedules from TLC paths (model unit = 250 ms when P = 2)

def schedule_from_path(path, unit=0.25, rng=None):
    """path = {"cfg": {c: {T,tok,cb,raiseAt}}, "h": [{a, c|k,id, now}, ...]} as emitted by
    GenRequestWait.  Environment steps only; a step is 'before' the timers of its instant
    unless a timer action of that instant precedes it in the path."""
    rng = rng or random.Random(0)
    callers = {}
    for c, k in path["cfg"].items():
        callers[c] = {
            "T": k["T"] * unit,
            "tok": k["tok"],
            "cb": k["cb"],
            "raiseAt": k.get("raiseAt", 0),
            "idshape": rng.choice(ID_SHAPES),
            "params": rng.choice(PARAM_SHAPES),
        }
    cs = sorted(callers)
    if len(cs) >= 2 and rng.random() < 0.4:
        callers[cs[0]]["idshape"] = rng.choice(["digits", "int"])
        callers[cs[1]]["idshape"] = "twin:" + cs[0]
    steps = []
    fired_at = None
    started = set()
    for h in path["h"]:
        a = h["a"]
        if a in ("PollTimeout", "Deadline"):
            fired_at = h["now"]
        elif a in ("Start", "Arrive", "Cancel"):
            s = {"a": a, "t": h["now"] * unit, "tie": "after" if fired_at == h["now"] else "before"}
            if a == "Arrive":
                s["k"] = h["k"]
                s["id"] = h["id"]
                if h["id"] == "other" and h["k"] in ("resp", "err", "sreq") and path["cfg"] and rng.random() < 0.5:
                    s["twin"] = rng.choice(sorted(path["cfg"]))
                if h["k"] == "prog":
                    s["fields"] = rng.choice(["all", "all", "some", "none"])
                if h["k"] == "err":
                    s["code"] = rng.choice([-32603, -32601, -32000, -32001, 1, 0, -1, 12345])
                    s["data"] = rng.random() < 0.5
                if h["k"] == "batch":
                    s["inner"] = rng.choice(["notifs", "resps"])
            else:
                s["c"] = h["c"]
                if a == "Start":
                    started.add(h["c"])
            steps.append(s)
    callers = {c: k for c, k in callers.items() if c in started}
    steps = [s for s in steps if s["a"] == "Arrive" or s["c"] in started]
    # uuid-shaped ids need the request to be the first thing that names the caller: fine,
    # ids are predicted, see run_schedule
    return {"callers": callers, "steps": steps}


# ---------------------------------------------------------------------------
# seeded random schedules beyond the model-checking bounds (10 ms grid)

def random_schedule(rng, ncallers=1, max_arr=12, flood=False, cancel=True, progress=True):
    names = CALLERS[:ncallers]
    callers = {}
    steps = []
    for c in names:
        T = rng.choice([0.3, 0.5, 0.75, 1.0, 1.2, 1.5, 2.0, 2.3])
        callers[c] = {
            "T": T,
            "tok": cancel and rng.random() < 0.6,
            "cb": progress and rng.random() < 0.6,
            "raiseAt": rng.choice([0, 0, 1, 2, 3]),
            "idshape": rng.choice(ID_SHAPES),
            "params": rng.choice(PARAM_SHAPES),
        }
        if len(names) > 1 and c == names[1] and rng.random() < 0.4:
            first = callers[names[0]]
            if first["idshape"] not in ("digits", "int"):
                first["idshape"] = rng.choice(["digits", "int"])
            callers[c]["idshape"] = "twin:" + names[0]
        t0 = rng.choice([0, 0, 0, 0.01, 0.2, 0.25, 0.5])
        steps.append({"a": "Start", "c": c, "t": t0})
        callers[c]["t0"] = t0
        if cancel is True and callers[c]["tok"] and rng.random() < 0.7:
            tc = _interesting_time(rng, t0, T) if rng.random() < 0.9 else max(0, t0 - 0.1)
            steps.append({"a": "Cancel", "c": c, "t": tc, "tie": rng.choice(["before", "after"])})
    horizon = max(k["t0"] + k["T"] for k in callers.values())
    n = rng.randrange(0, max_arr + 1)
    kinds = ["resp", "err", "sreq", "notif", "prog", "batch"]
    for _ in range(n):
        c = rng.choice(names)
        k = rng.choice(kinds)
        t = _interesting_time(rng, callers[c]["t0"], callers[c]["T"])
        s = {"a": "Arrive", "k": k, "id": rng.choice(names + ["other"]) if k not in ("notif", "batch") else "other", "t": t, "tie": rng.choice(["before", "after"])}
        if ncallers > 1 and k in ("resp", "err", "sreq", "prog") and s["id"] in callers and t < callers[s["id"]]["t0"]:
            s["t"] = callers[s["id"]]["t0"]
            s["tie"] = "after"
        if s["id"] == "other" and k in ("resp", "err", "sreq") and rng.random() < 0.6:
            s["twin"] = rng.choice(names)
        if k == "prog":
            s["fields"] = rng.choice(["all", "all", "some", "none"])
        if k == "err":
            s["code"] = rng.choice([-32603, -32601, -32000, -32001, 1, 0, -1, 2**40])
            s["data"] = rng.random() < 0.5
        if k == "batch":
            s["inner"] = rng.choice(["notifs", "resps"])
        steps.append(s)
    if flood:
        period = rng.choice([0.01, 0.01, 0.02, 0.05])
        t = 0.0
        while t <= horizon + 0.02:
            steps.append({"a": "Arrive", "k": rng.choice(["notif", "notif", "prog", "batch"]), "id": "other", "t": round(t, 2), "tie": rng.choice(["before", "after"])})
            t += period
    steps.sort(key=lambda s: s["t"])
    for k in callers.values():
        del k["t0"]
    return {"callers": callers, "steps": steps}


def _interesting_time(rng, t0, T):
    r = rng.random()
    if r < 0.35:   # around a poll boundary
        kmax = int(T / 0.5) + 1
        base = t0 + 0.5 * rng.randrange(0, kmax + 1)
        return max(0.0, round(base + rng.choice([-0.02, -0.01, 0, 0, 0.01, 0.02]), 2))
    if r < 0.55:   # around the deadline
        return max(0.0, round(t0 + T + rng.choice([-0.02, -0.01, 0, 0, 0.01]), 2))
    return round(t0 + rng.randrange(0, int(T * 100) + 3) / 100.0, 2)


if __name__ == "__main__":
    sched = json.load(open(sys.argv[1]))
    print(json.dumps(run_schedule(sched, int(sys.argv[2]) if len(sys.argv) > 2 else 0)))
