"""C20: HostLaunch against the three real host entry points with witness children."""
import itertools
import json
import os
import random

from harness import tlc, validate, par
from harness.common import Machinery
from harness.drivers import host_drv as hd

TREE = {"RunnerPassesTuple": False, "EnvSnapshotCached": False, "RunnerResolvesOnHostPath": False, "MaxRuns": 2}
CMDC = ["absolute", "bare", "spacePath"]
ARGC = ["none", "plain", "spaces", "quotes", "unicode", "empty", "many"]
ENVC = ["absent", "empty", "values"]
TOC = ["absent", "int", "float", "stringNumber"]


def cases(rng, quick):
    out = []
    # one server: every (args, env, timeout) class x entry; malformed classes x entry
    for e in ("loader", "cliTest", "runner"):
        for a in ARGC:
            for en in ENVC:
                for t in (TOC if not quick else [rng.choice(TOC)]):
                    for cmd in CMDC:
                        out.append({"entry": e, "malformed": "none", "verbose": e == "cliTest" and (len(out) % 2 == 1), "cfg": [{"args": a, "env": en, "timeout": t, "cmd": cmd, "extra": rng.random() < 0.5}]})
        for v in range(6):
            out.append({"entry": e, "malformed": "invalidJson", "variant": v, "cfg": [{"args": "plain", "env": "absent", "timeout": "absent", "cmd": "absolute"}]})
        for m in ("missingFile", "invalidJson", "unknownServer"):
            for n in (1, 2, 3):
                out.append({"entry": e, "malformed": m, "variant": n + len(out), "cfg": [{"args": rng.choice(ARGC), "env": rng.choice(ENVC), "timeout": rng.choice(TOC), "cmd": rng.choice(CMDC)} for _ in range(n)]})
    # 2..4 servers
    for _ in range(25 if quick else 300):
        n = rng.randrange(2, 5)
        out.append({"entry": rng.choice(["runner", "runner", "cliTest", "loader"]), "malformed": "none",
                    "cfg": [{"args": rng.choice(ARGC), "env": rng.choice(ENVC), "timeout": rng.choice(TOC), "cmd": rng.choice(CMDC), "extra": rng.random() < 0.3} for _ in range(n)]})
    return out


def check_c20(ctx):
    quick = ctx.tier == "quick"
    ctx.cov["rule"] = ("cases = (entry point, malformed class, 1..4 servers each with an args class {none, plain, spaces, quotes/shell metacharacters, Unicode, empty strings, 40 args}, "
                       "env class {absent, empty, values incl. empty and non-ASCII values}, command class {absolute interpreter path, bare name present differently on the configured and on the host PATH, absolute path containing blanks}, the CLI test with and without --verbose, timeout class {absent, int, float, string number}, optional extra keys); every single-server "
                       "combination per entry point plus seeded multi-server configurations; each runs the real entry point on a generated file with witness children; "
                       "distinct_nontrivial = distinct cases that spawn at least one child")
    ctx.assumptions += ["the command is the running Python interpreter; the witness script path is the first argument and everything after it is the configured argument list under test",
                        "a server without a configured environment must receive the host's inheritable variables (HOME, LOGNAME, PATH, SHELL, TERM, USER) as they are when it is launched: every case runs under "
                        "its own LOGNAME/USER values, after one priming env-less launch per host process under different ones",
                        "a bare command name is resolved on the PATH the child is given: the configured PATH when an environment is configured, the host's otherwise",
                        "env {} is treated like an absent env (the code's `env or default`); variables Python itself adds in the child are ignored",
                        "for the CLI test and the runner a malformed configuration must be a reported failure without any spawn; the documented exception types are judged on the loader"]
    r = tlc.run_tlc("HostLaunch", "mc/HostLaunch.cfg", work=os.path.join(ctx.work, "mc"), timeout=600, coverage=True)
    ctx.add_model_run("mc/HostLaunch.cfg", r)
    if r.invariant_violated:
        print("MODEL-STALE: HostLaunch violates %s" % r.invariant_violated)
    # the deviations (behaviour before the repair / of realistic drifts) must be rejected by the invariants
    for cfg, expect in (("mc/HostLaunch_devTuple.cfg", "LaunchesExactlyConfigured"), ("mc/HostLaunch_devSnapshot.cfg", "EnvironmentAtLaunch"), ("mc/HostLaunch_devWhich.cfg", "CommandAsConfigured")):
        rd = tlc.run_tlc("HostLaunch", cfg, work=os.path.join(ctx.work, "mcdev"), timeout=600)
        ctx.add_model_run(cfg, rd)
        if expect not in rd.invariant_violated:
            raise Machinery("%s: deviation not rejected by %s (vacuous invariant?)" % (cfg, expect))
    for a in ("Load", "Spawn", "Initialize", "Finish"):
        if r.coverage().get(a, (0, 0))[1] == 0:
            raise Machinery("action %s never taken" % a)
    rng = random.Random(ctx.seed + 20)
    cs = cases(rng, quick)
    work = os.path.join(ctx.work, "cases")
    os.makedirs(work, exist_ok=True)
    recs = par.pmap(hd.run_case, [(work, i, c) for i, c in enumerate(cs)], jobs=16, chunksize=1)
    consts = dict(TREE)
    consts["NServers"] = 4
    slim = [{k: v for k, v in x.items()} for x in recs]
    for x in slim:
        x["obs"] = {k: v for k, v in x["obs"].items() if k != "detail"}
    res = validate.validate("HostLaunchTrace", slim, consts, work=os.path.join(ctx.work, "val"), chunk=200)
    if res["rejected"]:
        raise Machinery("host cases not consumed")
    ctx.cov["states"] += res["states"]
    ctx.cov["transitions"] += res["transitions"]
    ctx.cov["traces_validated_against_impl"] += len(recs)
    ctx.cov["evaluations"] += len(recs)
    ctx.cov["distinct_nontrivial"] = len({json.dumps(c, sort_keys=True) for c in cs if c["malformed"] == "none" and c["entry"] != "loader"})
    ctx.cov["samples"] = [recs[1], recs[len(recs) // 2]]
    for i, cls in sorted(res["failed"].items()):
        for c in cls:
            if c in ("loader", "cliTest", "runner"):
                continue
            ctx.report("clause=%s entry=%s malformed=%s" % (c, cs[i]["entry"], cs[i]["malformed"]), "case %s observed %s" % (json.dumps(cs[i])[:200], json.dumps(recs[i]["obs"])[:400]),
                       {"kind": "host_case", "case": cs[i], "clause": c})
