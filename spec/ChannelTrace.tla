---------------------------- MODULE ChannelTrace ----------------------------
(* One generated conversation executed over every carrier able to express it (real           *)
(* StdioClient behind the process seam, real http_client with JSON and with SSE bodies, real *)
(* sse_client; scripted servers).  A trace: [carrier, conv, read: what the read stream       *)
(* handed to the client, in order, as [k, req, n, ok] (ok = payload, id and method equal to  *)
(* what the server sent, compared by the harness), outcomes: [class, ok] per request].       *)
EXTENDS Channel, TraceBatch
VARIABLES tid
Tr == Traces[tid]
Conv == [i \in DOMAIN Tr.conv |-> [nn |-> Tr.conv[i].nn, resp |-> Tr.conv[i].resp]]
Read == [i \in DOMAIN Tr.read |-> [k |-> Tr.read[i][1], req |-> Tr.read[i][2], n |-> Tr.read[i][3]]]
Clauses == <<
  <<"SameMessagesInOrder", Read = Expected(Conv)>>,
  <<"ContentUnaltered", \A i \in DOMAIN Tr.read : Tr.read[i][4]>>,
  <<"SameHelperOutcomes", [i \in DOMAIN Tr.outcomes |-> Tr.outcomes[i][1]] = [i \in 1..Len(Conv) |-> Outcome(Conv[i].resp)]>>,
  <<"OutcomeContent", \A i \in DOMAIN Tr.outcomes : Tr.outcomes[i][2]>>
>>
TInit == tid \in 1..NT /\ carrier = Tr.carrier /\ conv = <<>> /\ r = 1 /\ sent = <<>> /\ delivered = <<>> /\ outcomes = <<>> /\ answered = 0
TNext == UNCHANGED <<vars, tid>>
TSpec == TInit /\ [][TNext]_<<vars, tid>>
Judge == JudgeAll(tid, Clauses, Tr.carrier) /\ Accept(tid)
=============================================================================
