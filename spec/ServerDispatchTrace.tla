------------------------ MODULE ServerDispatchTrace ------------------------
(* Observed outcomes of real ProtocolHandler.handle_message calls judged against            *)
(* ServerDispatch.  A case: [kind, mclass, pshape, idc, typed, obs [built, raised, shape,   *)
(* idok, iserr, code, lineok]].  Clauses = the statement; "Model" = agreement with the      *)
(* implementation-shaped model (drift, not a violation).                                    *)
EXTENDS ServerDispatch, TraceBatch

VARIABLES tid
Case == Traces[tid]
O == Case.obs
M == [kind |-> Case.kind, m |-> Case.mclass, p |-> Case.pshape, idc |-> Case.idc]

\* the outcome the model predicts: run Lookup/Invoke as functions
Predicted ==
  LET notif == M.kind = "notification"
      er(code) == IF notif THEN (IF NotifErrorCrashes THEN Raised ELSE NoResp) ELSE Resp(code)
      h == Handler(M.m, M.p, M.kind)
  IN IF ~Registered(M.m) THEN er(32601)
     ELSE CASE h = "resp" -> IF notif THEN NoResp ELSE Resp(0)
            [] h = "err2" -> IF notif THEN NoResp ELSE Resp(32602)
            [] h = "err3" -> IF notif THEN NoResp ELSE Resp(32603)
            [] h = "raise" -> er(32603)
            [] h = "nonsense" -> IF NonsenseThrough THEN Nonsense ELSE er(32603)
            [] h = "none" -> IF notif \/ NoneThrough THEN NoResp ELSE er(32603)

ObsShape == IF O.raised THEN "raised" ELSE O.shape
Req == M.kind = "request"
Clauses == <<
  <<"NeverRaises", ~O.raised>>,
  <<"OneResponsePerRequest", Req => ObsShape = "response" /\ O.idok /\ O.lineok>>,
  <<"NoResponsePerNotification", ~Req => ObsShape = "none">>,
  <<"CodeTable", Req /\ ObsShape = "response" =>
      /\ (~Registered(M.m) => O.iserr /\ O.code = -32601)
      /\ (M.m \in {"customRaises", "customKeyError", "notifications/roots/list_changed"} => O.iserr /\ O.code = -32603)
      /\ (M.m \in {"toolsCallRaises", "toolsCallKeyError"} /\ M.p = "ok" => O.iserr /\ O.code = -32603)
      /\ (M.m \in {"resReadRaises", "resReadKeyError"} /\ M.p = "ok" => O.iserr /\ O.code = -32603)
      /\ (M.m = "toolsCallUnknown" /\ NameKnown(M.m, M.p) => O.iserr /\ O.code = -32602)
      /\ (M.m = "resReadUnknown" /\ M.p \in {"ok", "argsNull", "argsList"} => O.iserr /\ O.code = -32602)
      /\ (M.m \in {"ping", "toolsList", "resourcesList", "customOk", "customAck", "customStray"} => ~O.iserr)
      /\ (M.m \in {"toolsCallOk", "resReadOk"} /\ M.p = "ok" => ~O.iserr)>>,
  <<"Model", /\ ObsShape = Predicted.shape
             /\ (ObsShape = "response" => O.iserr = Predicted.iserr /\ (O.iserr => 0 - O.code = Predicted.code))>>
>>

TInit == tid \in 1..NT /\ msg = M /\ pc = "done" /\ out = None
TNext == UNCHANGED <<vars, tid>>
TSpec == TInit /\ [][TNext]_<<vars, tid>>
\* what is handed to the dispatcher but is neither a request nor a notification (a stray response,
\* a list, a message with neither method nor id): the statement only promises that dispatch does
\* not raise and that its answer has the shape its callers unpack
Strays == {"strayResponse", "strayError", "strayList", "strayEmptyList", "strayBare"}
StrayClauses == <<
  <<"NeverRaises", ~O.raised>>,
  <<"AnswerIsAPair", ObsShape # "nonsense">>
>>
Judge == (O.built => JudgeAll(tid, IF Case.mclass \in Strays THEN StrayClauses ELSE Clauses, Case.mclass)) /\ Accept(tid)
=============================================================================
