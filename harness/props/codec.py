"""C17: Codec specification against the two real JSON back ends (two worker processes)."""
import json
import os
import random
import subprocess
import sys

from harness import tlc, validate
from harness.common import Machinery, REPO, VERIF
from harness.workers.codec_worker import tag, untag

STR = {
    "ascii": "plain ascii", "empty": "", "lf": "a\nb", "cr": "a\rb", "nul": "a\x00b", "ctl": "\x01\x1f\x08\x0c\t", "quote": 'say "hi"', "backslash": "a\\b\\\\",
    "nel": "a\u0085b", "ls": "a b", "ps": "a b", "bmp": "é € 日本", "bmpEdge": "퟿�￿", "astral": "\U0001F600\U00010000\U0010FFFF", "del": "\x7f",
}
NUM = {
    "zero": 0, "neg": -1, "i31": 2**31, "i53": 2**53 + 1, "i63max": 2**63 - 1, "u63": 2**63, "u64max": 2**64 - 1, "i64min": -2**63,
    "frac": 1.5, "negzero": -0.0, "big": 1e308, "denormal": 5e-324,
}
OTHER = {"null": None, "true": True, "false": False, "emptyList": [], "emptyDict": {}, "nonAsciiKey": {"ключ é": 1}}


def classes_of(v, acc=None):
    acc = set() if acc is None else acc
    if isinstance(v, str):
        for c, s in STR.items():
            if v == s:
                acc.add(c)
        if not any(v == s for s in STR.values()):
            for ch in v:
                acc.add(char_class(ch))
    elif isinstance(v, bool) or v is None:
        acc.add({None: "null", True: "true", False: "false"}[v])
    elif isinstance(v, (int, float)):
        for c, n in NUM.items():
            if type(v) is type(n) and (v == n and (str(v) == str(n))):
                acc.add(c)
    elif isinstance(v, list):
        if not v:
            acc.add("emptyList")
        for x in v:
            classes_of(x, acc)
    elif isinstance(v, dict):
        if not v:
            acc.add("emptyDict")
        for k, x in v.items():
            if any(ord(c) > 127 for c in k):
                acc.add("nonAsciiKey")
            classes_of(x, acc)
    return acc


def char_class(ch):
    o = ord(ch)
    if ch == "\n":
        return "lf"
    if ch == "\r":
        return "cr"
    if o == 0:
        return "nul"
    if o < 0x20:
        return "ctl"
    if ch == '"':
        return "quote"
    if ch == "\\":
        return "backslash"
    if o == 0x7F:
        return "del"
    if o < 0x80:
        return "ascii"
    if o == 0x85:
        return "nel"
    if o == 0x2028:
        return "ls"
    if o == 0x2029:
        return "ps"
    if o > 0xFFFF:
        return "astral"
    return "bmp"


def raw_classes(text, v):
    """which string classes of the value appear raw (unescaped) in the encoded text"""
    out = set()
    def walk(x):
        if isinstance(x, str):
            cls = [c for c, s in STR.items() if s == x]
            if cls and cls[0] not in ("ascii", "empty", "quote", "backslash") and x:
                special = [ch for ch in x if char_class(ch) not in ("ascii", "quote", "backslash")]
                if special and all(ch in text for ch in special):
                    out.add(cls[0])
                elif special and any(ch in text for ch in special) and cls[0] == "bmpEdge":
                    out.add(cls[0])
            elif cls and cls[0] == "ascii":
                out.add("ascii")
        elif isinstance(x, list):
            for y in x:
                walk(y)
        elif isinstance(x, dict):
            for k, y in x.items():
                walk(y)
    walk(v)
    return out


def values(rng, quick):
    atoms = list(STR.values()) + list(NUM.values()) + [None, True, False]
    vals = list(atoms) + [[], {}, {"ключ é": 1}]
    # depth 2
    for a in atoms:
        vals.append([a])
        vals.append({"k": a})
        vals.append({"ключ": a, "": a})
    pairs = [(a, b) for a in atoms for b in atoms]
    rng.shuffle(pairs)
    for a, b in pairs[: 300 if quick else len(pairs)]:
        vals.append([a, b])
        vals.append({"x": a, "y ": b})
    # depth 3
    for _ in range(400 if quick else 6000):
        a, b, c = rng.choice(atoms), rng.choice(atoms), rng.choice(atoms)
        vals.append({"jsonrpc": "2.0", "id": rng.choice([a if isinstance(a, (int, str)) and not isinstance(a, bool) else 1]), "result": {"content": [{"type": "text", "text": b}], "n": [c, [a, {"deep": b}]]}})
        vals.append([[a, [b, [c]]], {"a": {"b": {"c": a}}}])
    # seeded deep / random strings
    for _ in range(200 if quick else 5000):
        s = "".join(chr(rng.choice([rng.randrange(0, 0x80), rng.randrange(0x80, 0xD800), rng.randrange(0xE000, 0x10000), rng.randrange(0x10000, 0x110000), 0x0A, 0x0D, 0x2028, 0x85, 0x22, 0x5C])) for _ in range(rng.randrange(0, 12)))
        n = rng.choice([rng.randrange(-2**63, 2**64), rng.randrange(-2**53, 2**53), rng.random() * 10 ** rng.randrange(-300, 300)])
        vals.append({s: [n, s, {"k": None}]})
    return vals


def worker(no_orjson, req):
    env = dict(os.environ)
    env["PYTHONPATH"] = VERIF + ":" + os.path.join(REPO, "src")
    env["PYTHONHASHSEED"] = "0"
    env.pop("MCP_FORCE_FALLBACK", None)
    if no_orjson:
        env["VERIF_NO_ORJSON"] = "1"
    else:
        env.pop("VERIF_NO_ORJSON", None)
    p = subprocess.run([sys.executable, "-B", "-m", "harness.workers.codec_worker"], input=json.dumps(req), env=env, capture_output=True, text=True, timeout=900)
    if p.returncode != 0:
        raise Machinery("codec worker failed: %s" % p.stderr[-800:])
    out = json.loads(p.stdout)
    if out["has_orjson"] == no_orjson:
        raise Machinery("codec worker started with the wrong back end (has_orjson=%s)" % out["has_orjson"])
    return out["results"]


def check_c17(ctx):
    quick = ctx.tier == "quick"
    ctx.cov["rule"] = ("cases = (JSON value, encoder back end) with both decoders applied to str and bytes input: all atoms (15 string classes incl. every C0 control, U+0085/2028/2029, BMP edges, astral; "
                       "12 number classes incl. 2^53+1, 2^63-1, 2^63, 2^64-1, -2^63, -0.0, 1e308, 5e-324), all depth-2 containers over them, seeded pairs, depth-3 message-shaped values, seeded random strings "
                       "over the whole code space without lone surrogates and seeded integers over the signed and unsigned 64-bit range; distinct_nontrivial = distinct (value, encoder) pairs")
    ctx.assumptions += ["the two back ends run in separate processes (orjson importable / sys.modules['orjson'] = None before import)",
                        "value equality is tagged-tree equality (ints exact, floats by float.hex, strings by code points) computed by the harness; TLC judges the flags and the path/escape model"]
    r = tlc.run_tlc("Codec", "mc/Codec.cfg", work=os.path.join(ctx.work, "mc"), timeout=600, coverage=True)
    ctx.add_model_run("mc/Codec.cfg", r)
    if r.invariant_violated:
        print("MODEL-STALE: Codec violates %s" % r.invariant_violated)
    rng = random.Random(ctx.seed + 17)
    vals = values(rng, quick)
    trees = [tag(v) for v in vals]
    recs = []
    texts = {}
    for enc, no in (("orjson", False), ("stdlib", True)):
        texts[enc] = worker(no, {"op": "encode", "values": trees})
    decoded = {}
    for dec, no in (("orjson", False), ("stdlib", True)):
        for enc in ("orjson", "stdlib"):
            req = {"op": "decode", "texts": [[t["text"], False] for t in texts[enc]] + [[t["text"], True] for t in texts[enc]]}
            decoded[(enc, dec)] = worker(no, req)
    n = len(vals)
    for enc in ("orjson", "stdlib"):
        for i, v in enumerate(vals):
            t = texts[enc][i]
            s = "".join(chr(c) for c in t["text"])
            eq = {}
            for dec in ("orjson", "stdlib"):
                d = decoded[(enc, dec)]
                eq[dec] = bool(t["ok"] and d[i]["ok"] and d[i]["tree"] == trees[i] and d[n + i]["ok"] and d[n + i]["tree"] == trees[i])
            cs = sorted(classes_of(v) & (set(STR) | set(NUM) | set(OTHER)))
            named = all((not isinstance(x, str)) or x in STR.values() for x in _strings(v))
            recs.append({"enc": enc, "ok": bool(t["ok"]), "isstr": bool(t["isstr"]), "path": t["path"], "rawLF": "\n" in s or not t.get("altSame", True), "rawCR": "\r" in s,
                         "cs": cs if named else [], "raw": sorted(raw_classes(s, v) - {"ascii", "empty"}) if named else [], "eqOrjson": eq["orjson"], "eqStdlib": eq["stdlib"], "named": named,
                         "valuePreview": json.dumps(v, ensure_ascii=True)[:80]})
    # seeded deep values: chains nested 200 .. 1300 levels (beyond what the fast back end takes), every
    # encoder x decoder pair; judged like any other value (round trip under each back end, one line)
    depths = [200, 254, 255, 256, 500, 1000, 1023, 1024, 1100, 1300]
    deep = {}
    for enc, no in (("orjson", False), ("stdlib", True)):
        deep[enc] = worker(no, {"op": "deep", "depths": depths})
    for enc in ("orjson", "stdlib"):
        items = [{"text": r_["text"], "depth": r_["depth"]} for r_ in deep[enc]]
        dd = {dec: worker(no, {"op": "deepdecode", "items": items}) for dec, no in (("orjson", False), ("stdlib", True))}
        for i, r_ in enumerate(deep[enc]):
            too_deep = deep["orjson"][i]["path"] == "fallback"          # a property of the value: the fast encoder refuses it
            recs.append({"enc": enc, "ok": bool(r_["encoded"]), "isstr": True, "path": r_["path"], "rawLF": "\n" in r_["text"], "rawCR": "\r" in r_["text"],
                         "cs": ["deep"] if too_deep else [], "raw": [], "eqOrjson": bool(r_["encoded"] and dd["orjson"][i]["ok"]), "eqStdlib": bool(r_["encoded"] and dd["stdlib"][i]["ok"]), "named": True,
                         "valuePreview": "deep %s chain, %d levels" % (r_["shape"], r_["depth"])})
    # one NDJSON frame, as the library's own line reader sees it: every text encoded by either
    # back end, written as a line, comes out of the real stdio reader as exactly one message
    from harness.drivers import stdio_drv
    frame_vals = [v for v in vals if not isinstance(v, float)][: 600 if quick else 4000]
    wrapped = [{"jsonrpc": "2.0", "method": "notifications/message", "params": {"i": i, "v": v}} for i, v in enumerate(frame_vals)]
    wtrees = [tag(w) for w in wrapped]
    for enc, no in (("orjson", False), ("stdlib", True)):
        enc_res = worker(no, {"op": "encode", "values": wtrees})
        lines = ["".join(chr(c) for c in t["text"]) for t in enc_res]
        delivered = stdio_drv.run_frames(lines)
        by_i = {}
        for d in delivered:
            p_ = d.get("params") if isinstance(d, dict) else None
            if isinstance(p_, dict) and isinstance(p_.get("i"), int):
                by_i.setdefault(p_["i"], []).append(p_)
        for i, w in enumerate(wrapped):
            got = by_i.get(i, [])
            ok = len(got) == 1 and tag(got[0]) == tag(w["params"])
            recs.append({"enc": enc, "ok": True, "isstr": True, "path": enc_res[i]["path"], "rawLF": not ok, "rawCR": False, "cs": [], "raw": [], "eqOrjson": True, "eqStdlib": True, "named": False,
                         "valuePreview": "frame:" + json.dumps(w["params"]["v"], ensure_ascii=True)[:70], "frame": True})
    slim = []
    for x in recs:
        y = {k: v for k, v in x.items() if k not in ("valuePreview", "named", "frame")}
        if not x["named"]:
            y["cs"] = []
            y["raw"] = []
        y["cs"] = [c for c in y["cs"] if c in STR or c in NUM or c in OTHER or c == "deep"]
        slim.append(y)
    res = validate.validate("CodecTrace", slim, {}, work=os.path.join(ctx.work, "val"), chunk=3000)
    if res["rejected"]:
        raise Machinery("codec cases not consumed")
    ctx.cov["states"] += res["states"]
    ctx.cov["transitions"] += res["transitions"]
    ctx.cov["traces_validated_against_impl"] += len(recs)
    ctx.cov["evaluations"] += len(recs) * 5
    ctx.cov["distinct_nontrivial"] = len({(x["enc"], x["valuePreview"]) for x in recs})
    ctx.cov["samples"] = [recs[3], recs[len(recs) // 2]]
    drift = 0
    for i, cls in sorted(res["failed"].items()):
        for c in cls:
            if c in ("orjson", "stdlib"):
                continue
            if c in ("PathModel", "EscapeModel"):
                drift += 1
                if drift <= 3:
                    ctx.note("model drift %s: %s" % (c, json.dumps(recs[i])[:300]))
                continue
            if recs[i].get("frame"):
                ctx.report("clause=OneFrameThroughReader enc=%s" % recs[i]["enc"], json.dumps(recs[i])[:300], {"kind": "codec_frame", "preview": recs[i]["valuePreview"], "enc": recs[i]["enc"], "clause": c})
                continue
            ctx.report("clause=%s enc=%s" % (c, recs[i]["enc"]), json.dumps(recs[i])[:300], {"kind": "codec_value", "tree": trees[i % n], "enc": recs[i]["enc"], "clause": c})
    ctx.cov["drift"] = drift


def _strings(v):
    if isinstance(v, str):
        yield v
    elif isinstance(v, list):
        for x in v:
            yield from _strings(x)
    elif isinstance(v, dict):
        for k, x in v.items():
            yield from _strings(x)
