"""C01, C14, C18 (and the ErrNeverNormal clause of C07): the RequestWait specification.

pipeline: MC (TLC, exhaustive) -> G (TLC-generated schedules replayed into the real
send_message under the virtual clock) + seeded random schedules beyond the bounds -> V (TLC
validates every recorded trace against RequestWaitTrace, strict then observer) -> classify.
"""
import json
import os
import random

from harness import tlc, validate, par
from harness.common import Machinery
from harness.drivers import request_wait as rw

CLAUSES = {
    "C01": ["OnlyOwnResponse", "FirstResponse", "ExactlyOneRequest", "TimeoutIfNone", "EndedByDeadline", "PayloadExact",
            "WireContent", "OutcomeKind", "AllDoneAtEnd"],
    "C14": ["EndsByDeadline", "EndedByDeadline", "CancelPrompt", "CancelPromptDone", "CancelOutcome",
            "OneCancelNotif", "NeverSentIfPreCancelled", "PreCancelledNeverSent", "ProgressSound",
            "ProgressExact", "ProgressValues", "AllDoneAtEnd", "OutcomeKind"],
    "C18": ["OnlyOwnResponse", "NoLostResponse", "EndedByDeadline", "PayloadExact", "OutcomeKind", "AllDoneAtEnd"],
    "C07": ["ErrNeverNormal"],
}

# deviation constants describing the current tree (kept in step with the code; a tree that
# departs from them is still judged by the observer stage)
TREE = {"SameIdRequestIsResponse": False, "FifoWaiters": True}

TRACE_CONSTS = {
    "Callers": {"a", "b", "c", "d"}, "P": 50, "Configs": set(), "Kinds": set(),
    "MaxArr": 0, "MaxTime": 0,
}


def trace_constants():
    c = dict(TRACE_CONSTS)
    c.update(TREE)
    return c


def _run_one(arg):
    sched, seed = arg
    try:
        return rw.run_schedule(sched, seed)
    except BaseException as e:  # the driver itself failed
        return {"error": "%s: %s" % (type(e).__name__, e)}


def model_check(ctx, cfg, expect=(), timeout=1500, module="MC_RequestWait"):
    w = os.path.join(ctx.work, "mc")
    r = tlc.run_tlc(module, cfg, work=w, coverage=True, timeout=timeout)
    ctx.add_model_run(cfg, r)
    viol = set(r.invariant_violated)
    cov = r.coverage()
    for act in ("Start", "EnterRecv", "Recv", "PollTimeout", "Deadline", "Arrive", "Advance"):
        taken = max(cov.get(a, (0, 0))[1] for a in ((act, "ArriveKI", "ArriveMsg") if act == "Arrive" else (act,)))
        if taken == 0 and not viol:
            raise Machinery("action %s never taken in %s (vacuous model run)" % (act, cfg))
    ctx.cov.setdefault("action_coverage", {})[cfg] = {k: v[1] for k, v in cov.items()}
    unexpected = viol - set(expect)
    missing = set(expect) - viol
    if unexpected:
        # a counterexample on the model is not a violation by itself (DESIGN 2.4): the
        # observed traces decide.  It means the model no longer describes a correct design.
        print("MODEL-STALE: %s violates %s in the model; verdict rests on observed traces" % (cfg, sorted(unexpected)))
        ctx.note("model run %s: invariant(s) %s violated in the model" % (cfg, sorted(unexpected)))
    if missing:
        print("MODEL-STALE: %s no longer exhibits %s" % (cfg, sorted(missing)))
    return r


def generate(ctx, cfg, limit=None, simulate=None, timeout=900):
    """TLC-generated schedules: one per transition into an all-done state."""
    w = os.path.join(ctx.work, "gen")
    extra = []
    if simulate:
        extra = ["-simulate", "num=%d" % simulate, "-depth", "40", "-seed", str(ctx.seed or 1)]
    r = tlc.run_tlc("GenRequestWait", cfg, work=w, workers=1, timeout=timeout, extra=extra)
    paths = r.printed("PATH")
    if not paths:
        raise Machinery("generation run %s printed no path" % cfg)
    ctx.cov["model_runs"].append({"config": cfg, "paths_emitted": len(paths), "states_generated": r.generated, "distinct_states": r.distinct})
    rng = random.Random(ctx.seed)
    seen = set()
    scheds = []
    for p in paths:
        s = rw.schedule_from_path(p, rng=random.Random(0))
        key = json.dumps({"c": {c: [k["T"], k["tok"], k["cb"]] for c, k in s["callers"].items()}, "s": s["steps"]}, sort_keys=True)
        if key in seen or not s["callers"]:
            continue
        seen.add(key)
        s = rw.schedule_from_path(p, rng=random.Random(rng.getrandbits(32)))
        scheds.append(s)
    if limit and len(scheds) > limit:
        rng.shuffle(scheds)
        scheds = scheds[:limit]
    return scheds, len(paths)


def replay_and_validate(ctx, pid, scheds, label):
    seeds = [(s, (ctx.seed * 1000003 + i) & 0x7FFFFFFF) for i, s in enumerate(scheds)]
    traces = par.pmap(_run_one, seeds)
    errs = [t for t in traces if "error" in t]
    if errs:
        raise Machinery("driver failed on %d schedules, first: %s" % (len(errs), errs[0]["error"]))
    skipped = [i for i, t in enumerate(traces) if "unpredicted" in t]
    if skipped:
        ctx.note("%d schedules not judged: the library generated an id or progress token the driver could not predict and an arrival named the caller before its request was written" % len(skipped))
        ctx.cov["unpredicted_ids"] = ctx.cov.get("unpredicted_ids", 0) + len(skipped)
        keep = [i for i in range(len(traces)) if i not in set(skipped)]
        traces = [traces[i] for i in keep]
        scheds = [scheds[i] for i in keep]
        seeds = [seeds[i] for i in keep]
    res = validate.two_stage("RequestWaitTrace", traces, trace_constants(), work=os.path.join(ctx.work, "val_" + label))
    ctx.cov["states"] += res["states"]
    ctx.cov["transitions"] += res["transitions"]
    ctx.cov["traces_validated_against_impl"] += len(traces)
    ctx.cov["drift"] += res["drift"]
    ctx.cov["evaluations"] += len(traces)
    keys = set()
    own = set(CLAUSES[pid])
    nfail = 0
    for i, t in enumerate(traces):
        keys.add(json.dumps([[e["e"], e.get("c"), e.get("k"), e.get("kind"), e.get("id")] for e in t["ev"]]))
        v = res["verdict"][i]
        if v["stage"] == 0:
            raise Machinery("trace %d (%s) cannot be consumed even by the observer: %s" % (i, label, json.dumps(t)[:600]))
        for cl in v["clauses"]:
            if cl not in own:
                continue
            nfail += 1
            sig = signature(t, cl)
            if v["stage"] == 2 and cl == "NoLostResponse":
                # the implementation model (which contains the shared-stream discard) does not
                # explain this run: not the history the known finding describes
                sig += " history-outside-implementation-model"
            ctx.report(sig, "stage %d, schedule %s" % (v["stage"], json.dumps(scheds[i])[:300]),
                       {"kind": "request_wait", "schedule": scheds[i], "seed": seeds[i][1], "trace": t, "clause": cl})
    ctx.cov["distinct_nontrivial"] += len(keys)
    if res["drift"]:
        ctx.note("%s: %d of %d traces left the implementation model (judged by the observer)" % (label, res["drift"], len(traces)))
    if len(ctx.cov["samples"]) < 6 and traces:
        ctx.cov["samples"].append({"schedule": scheds[0], "trace": traces[0]["ev"]})
        ctx.cov["samples"].append({"schedule": scheds[len(scheds) // 2], "trace": traces[len(scheds) // 2]["ev"]})
    return traces, res


def signature(trace, clause):
    evs = trace["ev"]
    arr = {e["n"]: e for e in evs if e["e"] == "Arrive"}
    if clause in ("OnlyOwnResponse", "FirstResponse", "TimeoutIfNone", "PayloadExact"):
        for e in evs:
            if e["e"] == "Complete" and e["kind"] in ("result", "error"):
                src = arr.get(e["n"])
                if src is None:
                    return "clause=%s src=unknown" % clause
                if src["k"] not in ("resp", "err") or src["id"] != e["c"]:
                    return "clause=%s src.k=%s %s" % (clause, src["k"], "same-id" if src["id"] == e["c"] else "other-id")
        return "clause=%s" % clause
    if clause == "NoLostResponse":
        started = {}
        done = {}
        for e in evs:
            if e["e"] == "Start":
                started[e["c"]] = e["t"]
            if e["e"] == "Complete":
                done[e["c"]] = e
        for c, d in done.items():
            if d["kind"] != "timeout":
                continue
            T = trace["cfg"][c]["T"]
            for n, a in sorted(arr.items()):
                if a["k"] in ("resp", "err") and a["id"] == c and started[c] <= a["t"] < started[c] + T:
                    others = [o for o in started if o != c and started[o] <= a["t"] and (o not in done or done[o]["t"] >= a["t"])]
                    if others:
                        return "clause=NoLostResponse consumer!=owner discarded"
                    return "clause=NoLostResponse no-competing-waiter"
        return "clause=NoLostResponse"
    return "clause=%s" % clause


def replay_file(rep):
    """Re-execute a recorded schedule and re-validate it; returns (clauses failed, trace)."""
    t = rw.run_schedule(rep["schedule"], rep["seed"])
    res = validate.two_stage("RequestWaitTrace", [t], trace_constants(), work=os.path.join(tlc.WORK, "replay_rw"), jobs=1)
    return res["verdict"][0], t


# ---------------------------------------------------------------------------

def random_scheds(ctx, n, **kw):
    rng = random.Random(ctx.seed * 7919 + 13)
    return [rw.random_schedule(rng, **kw) for _ in range(n)]


def check_c01(ctx):
    quick = ctx.tier == "quick"
    ctx.cov["rule"] = ("cases = environment schedules (caller configs, arrivals with kind/id/time/tie side, cancels); "
                       "TLC-generated = one per transition into an all-done state of the generation instance, de-duplicated; "
                       "random = seeded schedules on the 10 ms grid; distinct_nontrivial = distinct recorded event sequences "
                       "(event, caller, kind, id), every one of which contains at least one system action")
    ctx.assumptions += [
        "TLC explores RequestWait exhaustively only inside the stated constants (1 caller, MaxArr arrivals, half-poll-interval time grid)",
        "the write stream is a recording object and the read stream an unbounded anyio memory stream, as the transports provide",
        "payload/id/params equality inside a class (id shapes, params shapes) is compared by the driver and reaches TLC as an ok flag",
    ]
    model_check(ctx, "mc/RequestWait_c01_quick.cfg" if quick else "mc/RequestWait_c01_thorough.cfg")
    scheds, _ = generate(ctx, "mc/GenRequestWait_1.cfg", limit=12000 if quick else None)
    replay_and_validate(ctx, "C01", scheds, "gen")
    if not quick:
        scheds, _ = generate(ctx, "mc/GenRequestWait_1b.cfg", simulate=20000)
        replay_and_validate(ctx, "C01", scheds, "sim")
    rs = random_scheds(ctx, 3000 if quick else 50000, ncallers=1, max_arr=12, cancel=False, progress=True)
    replay_and_validate(ctx, "C01", rs, "rand")


def check_c14(ctx):
    quick = ctx.tier == "quick"
    ctx.cov["rule"] = ("cases = environment schedules with cancellation tokens, progress callbacks (raising at a chosen invocation) "
                       "and background traffic (none / bursts / flood every 10-50 ms); distinct_nontrivial = distinct recorded event sequences")
    ctx.assumptions += [
        "TLC explores RequestWait exhaustively only inside the stated constants",
        "time is virtual: anyio deadlines are loop timers of the harness loop; ties are realised by sub-microsecond offsets and rounded to the 10 ms grid",
    ]
    model_check(ctx, "mc/RequestWait_c14_quick.cfg" if quick else "mc/RequestWait_c14_thorough.cfg")
    scheds, _ = generate(ctx, "mc/GenRequestWait_c14.cfg", limit=10000 if quick else None)
    replay_and_validate(ctx, "C14", scheds, "gen")
    rs = random_scheds(ctx, 2000 if quick else 20000, ncallers=1, max_arr=8)
    replay_and_validate(ctx, "C14", rs, "rand")
    fl = random_scheds(ctx, 300 if quick else 6000, ncallers=1, max_arr=6, flood=True)
    replay_and_validate(ctx, "C14", fl, "flood")


def check_c18(ctx):
    quick = ctx.tier == "quick"
    ctx.cov["rule"] = ("cases = environment schedules with 2..4 concurrent callers on one stream pair, answers in every order, "
                       "interleaved notifications, times around poll boundaries; distinct_nontrivial = distinct recorded event sequences")
    ctx.assumptions += [
        "which waiter the stream wakes is environment nondeterminism in the model and observed, never forced, in the code",
    ]
    model_check(ctx, "mc/RequestWait_c18_quick.cfg" if quick else "mc/RequestWait_c18_thorough.cfg")
    model_check(ctx, "mc/RequestWait_c18_loss.cfg", expect=("NoLostResponse",))
    scheds, _ = generate(ctx, "mc/GenRequestWait_c18.cfg", limit=10000 if quick else None)
    replay_and_validate(ctx, "C18", scheds, "gen")
    stdio_carried(ctx, quick)
    n = 1500 if quick else 20000
    for k in (2, 3, 4):
        rs = random_scheds(ctx, n // 3, ncallers=k, max_arr=3 * k, cancel=False, progress=False)
        replay_and_validate(ctx, "C18", rs, "rand%d" % k)
        # callers that differ in what they were given (a cancellation token that is never triggered,
        # a progress callback) must wait alike
        rs = random_scheds(ctx, n // 6, ncallers=k, max_arr=3 * k, cancel="idle", progress=True)
        replay_and_validate(ctx, "C18", rs, "mixed%d" % k)


def stdio_carried(ctx, quick):
    """the anchor stdio_client.py: several callers' responses behind bursts of unrelated
    notifications in ONE read (more messages than the bounded read stream holds) must all reach the
    read stream - validated against StdioFraming"""
    from harness.drivers import stdio_drv as sd
    from harness.props import framing
    rng = random.Random(ctx.seed + 18)
    cases = []
    for _ in range(4 if quick else 40):
        lines = []
        for caller in range(rng.randrange(2, 5)):
            lines += [("notif", rng.choice(["ascii", "b2"]), "LF")] * rng.randrange(60, 160)
            lines.append(("resp", "ascii", "LF"))
        data, _ = sd.build_stream(lines, None)
        cases.append((lines, None, [len(data)]))
    traces = sd.run_framing(cases)
    consts = dict(framing.TREE)
    consts.update({"Upto": ("<-", "TraceUpto"), "Streams": set(), "MaxCuts": 0})
    res = validate.two_stage("StdioFramingTrace", [{k: v for k, v in t.items() if k != "kinds"} for t in traces], consts, work=os.path.join(ctx.work, "val_stdio"), jobs=4)
    ctx.cov["states"] += res["states"]
    ctx.cov["transitions"] += res["transitions"]
    ctx.cov["traces_validated_against_impl"] += len(traces)
    ctx.cov["evaluations"] += len(traces)
    for i, t in enumerate(traces):
        v = res["verdict"][i]
        if v["clauses"]:
            ctx.report("clause=NoLostResponse carrier=stdio %s" % ",".join(framing.signatures(t, v["clauses"])), "burst of %d lines in one read" % len(cases[i][0]),
                       {"kind": "framing", "lines": cases[i][0], "tail": None, "sizes": cases[i][2], "clause": v["clauses"][0]})
