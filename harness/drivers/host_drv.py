"""C20 driver: generated configuration files, witness children, the three host entry points."""
import contextlib
import glob
import io
import json
import logging
import os
import shutil
import sys

import anyio

logging.disable(logging.CRITICAL)

HERE = os.path.dirname(os.path.dirname(os.path.abspath(__file__)))
WITNESS = os.path.join(HERE, "children", "witness.py")

ARGS = {
    "none": [],
    "plain": ["--port", "8080"],
    "spaces": ["two words", " leading", "trailing "],
    "quotes": ["it's", 'say "hi"', "$HOME", "a;b|c&d", "*"],
    "unicode": ["naïve", "日本語", "\U0001F600"],
    "empty": ["", "x", ""],
    "many": [str(i) for i in range(40)],
}
ENVS = {"absent": "ABSENT", "empty": {}, "values": {"VERIF_FOO": "bar baz", "VERIF_EMPTY": "", "VERIF_UNI": "é", "PATH": "/usr/bin:/bin"}}
TIMEOUTS = {"absent": "ABSENT", "int": 7, "float": 2.5, "stringNumber": "12.5"}


def build_case(work, n, case):
    d = os.path.join(work, "case_%d" % n)
    shutil.rmtree(d, ignore_errors=True)
    os.makedirs(d)
    servers = {}
    meta = []
    for i, sc in enumerate(case["cfg"], 1):
        sd = os.path.join(d, "s%d" % i)
        os.makedirs(sd)
        script = os.path.join(sd, "witness.py")
        shutil.copy(WITNESS, script)
        args = ["-B", script] + ARGS[sc["args"]]
        entry = {"command": sys.executable, "args": args}
        if ENVS[sc["env"]] != "ABSENT":
            entry["env"] = ENVS[sc["env"]]
        if TIMEOUTS[sc["timeout"]] != "ABSENT":
            entry["timeout"] = TIMEOUTS[sc["timeout"]]
        if sc.get("extra"):
            entry["description"] = "extra key"
            entry["disabled"] = False
        servers["srv%d" % i] = entry
        meta.append({"dir": sd, "args": ARGS[sc["args"]], "env": ENVS[sc["env"]], "timeout": TIMEOUTS[sc["timeout"]], "entry": entry})
    path = os.path.join(d, "config.json")
    mal = case["malformed"]
    if mal == "invalidJson":
        with open(path, "w") as f:
            f.write(['{"mcpServers": {"srv1": {"command": ', "", "  \n\t ", "not json at all", '{"mcpServers": {},}', "\ufeff"][case.get("variant", n) % 6])
    elif mal != "missingFile":
        with open(path, "w") as f:
            json.dump({"mcpServers": servers, "other": 1}, f, ensure_ascii=False)
    names = ["srv%d" % i for i in range(1, len(meta) + 1)]
    if mal == "unknownServer":
        names = ["no-such-server"] + names[1:]
    return path, names, meta


def observe(meta):
    spawned = []
    hs = []
    for i, m in enumerate(meta, 1):
        for wf in sorted(glob.glob(os.path.join(m["dir"], "witness.*.json"))):
            w = json.load(open(wf))
            pid = wf.rsplit(".", 2)[1]
            env_ok = True
            if isinstance(m["env"], dict) and m["env"]:
                env_ok = all(w["env"].get(k) == v for k, v in m["env"].items())
            spawned.append({"server": i, "argsOk": w["argv"] == m["args"], "envOk": bool(env_ok), "exeOk": os.path.realpath(w["exe"]) == os.path.realpath(sys.executable)})
            if os.path.exists(os.path.join(m["dir"], "initialized.%s" % pid)):
                hs.append(i)
    return spawned, hs


def run_case(arg):
    work, n, case = arg
    from chuk_mcp.config import load_config
    import chuk_mcp.__main__ as cli
    from chuk_mcp.mcp_client.host import server_manager

    path, names, meta = build_case(work, n, case)
    obs = {"outcome": "none", "spawned": [], "handshakes": [], "paramsOk": False, "timeoutOk": False, "detail": ""}
    buf = io.StringIO()
    try:
        with contextlib.redirect_stdout(buf):
            if case["entry"] == "loader":
                try:
                    res = anyio.run(load_config, path, names[0])
                    params, timeout = res
                    m = meta[0]
                    obs["paramsOk"] = (params.command == m["entry"]["command"] and list(params.args) == m["entry"]["args"]
                                       and params.env == m["entry"].get("env"))
                    want = None if m["timeout"] == "ABSENT" else float(m["timeout"])
                    obs["timeoutOk"] = timeout == want and (timeout is None or isinstance(timeout, float))
                    obs["outcome"] = "params"
                except FileNotFoundError:
                    obs["outcome"] = "FileNotFoundError"
                except json.JSONDecodeError:
                    obs["outcome"] = "JSONDecodeError"
                except ValueError:
                    obs["outcome"] = "ValueError"
                except Exception as e:
                    obs["outcome"] = "other:" + type(e).__name__
            elif case["entry"] == "cliTest":
                ok = anyio.run(cli.test_server, path, names[0], False)
                obs["outcome"] = "connected" if ok is True else "reportedFailure"
            else:
                called = {}

                async def command(server_streams, **kw):
                    from chuk_mcp.protocol.messages import send_ping
                    called["n"] = len(server_streams)
                    # one round trip per server, so that each child has consumed everything
                    # written before it (in particular notifications/initialized)
                    for rs, ws in server_streams:
                        await send_ping(rs, ws, timeout=5.0)

                old = server_manager.os.system
                server_manager.os.system = lambda *_a, **_k: 0
                try:
                    server_manager.run_command(command, path, names)
                finally:
                    server_manager.os.system = old
                obs["outcome"] = "connected" if called.get("n") == len(names) else "reportedFailure"
    except BaseException as e:  # noqa
        if isinstance(e, (KeyboardInterrupt, SystemExit)):
            raise
        obs["outcome"] = "raised:" + type(e).__name__
    obs["detail"] = buf.getvalue()[-300:]
    obs["spawned"], obs["handshakes"] = observe(meta)
    shutil.rmtree(os.path.dirname(path), ignore_errors=True)
    return {"entry": case["entry"], "malformed": case["malformed"], "cfg": [{k: v for k, v in c.items() if k != "extra"} for c in case["cfg"]], "obs": obs}
