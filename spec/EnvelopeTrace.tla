--------------------------- MODULE EnvelopeTrace ---------------------------
(* Every emitter of the package called for real (both back ends), its serialised forms       *)
(* (model_dump(exclude_none) and model_dump_json) abstracted to envelope records, and what    *)
(* parse_message makes of them.  A case: [emitter, want (request/notification/result/error),  *)
(* backend, form, env, penv, idEq, payloadEq, sameTree].                                       *)
EXTENDS Envelope, TraceBatch
VARIABLES tid
Case == Traces[tid]
AsEnv(r) == [ver |-> r.ver, id |-> r.id, method |-> r.method, params |-> r.params, result |-> r.result, error |-> r.error, codeInt |-> r.codeInt, msgStr |-> r.msgStr]
E == IF Case.env.obj THEN AsEnv(Case.env) ELSE NoEnv
P == IF Case.penv.obj THEN AsEnv(Case.penv) ELSE NoEnv
Clauses == <<
  <<"EmittedValid", Case.env.obj /\ Valid(E) /\ Kind(E) = Case.want>>,
  <<"EmittedPayload", Case.payloadEq>>,
  <<"ParserAccepts", Case.penv.obj>>,
  <<"RoundTripKind", Case.penv.obj /\ Case.env.obj => Kind(P) = Kind(E)>>,
  <<"RoundTripId", Case.penv.obj => Case.idEq>>,
  <<"RoundTripPayload", Case.penv.obj => Case.sameTree>>
>>
TInit == tid \in 1..NT /\ em = "request" /\ idc = "int" /\ payload = FALSE /\ stage = "parsed" /\ emitted = NoEnv /\ parsed = NoEnv
TNext == UNCHANGED <<vars, tid>>
TSpec == TInit /\ [][TNext]_<<vars, tid>>
Judge == JudgeAll(tid, Clauses, Case.emitter) /\ Accept(tid)
=============================================================================
