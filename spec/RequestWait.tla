--------------------------- MODULE RequestWait ---------------------------
(***************************************************************************)
(* The client request layer of chuk-mcp:                                   *)
(*   chuk_mcp/protocol/messages/send_message.py                            *)
(*     send_message / _await_response / _process_response                  *)
(*                                                                         *)
(* One connection = one shared read stream (inq) polled by every pending   *)
(* caller.  One action per critical section of the code:                   *)
(*   Start        pre-send cancellation check, single write, arm timers    *)
(*   Recv         one iteration of the receive loop that got a message     *)
(*   PollTimeout  the 0.5 s sub-timeout fired: loop, cancellation check    *)
(*   Deadline     the outer anyio.fail_after(timeout) fired                *)
(* Environment: Arrive (server / transport puts a message on the stream),  *)
(* Cancel (application triggers the token), Advance (time passes).         *)
(*                                                                         *)
(* The read stream is an anyio memory object stream.  With FifoWaiters its  *)
(* hand-off is modelled as the code has it: receive() yields once          *)
(* (entering), then takes the head of the buffer or joins the queue of     *)
(* blocked receivers (waitq); a message sent while receivers are blocked   *)
(* is handed to the FIRST of them at that instant (hand) and never reaches *)
(* the buffer; a sub-timeout takes its caller out of the queue and the     *)
(* next loop iteration joins it again at the back.  Without FifoWaiters    *)
(* any waiting caller may take the head of the stream (the abstraction the *)
(* first version of this module used).                                     *)
(*                                                                         *)
(* Time is a natural number of units; P units = one 0.5 s poll interval.   *)
(* Advance jumps to the next armed timer (or one unit), never past one, and*)
(* is disabled while a waiter could receive (receiving is urgent).         *)
(* "Just before / at / just after a boundary" is interleaving at an instant*)
(***************************************************************************)
EXTENDS Naturals, Sequences, FiniteSets, TLC

CONSTANTS
  Callers,        \* names of the concurrent callers; a caller's name is also its request id
  P,              \* poll interval in time units
  Configs,        \* set of caller configurations [T, tok, cb, raiseAt]
  Kinds,          \* message kinds the environment may inject
  MaxArr,         \* bound on the number of arrivals
  MaxTime,        \* bound on the clock
  SameIdRequestIsResponse,  \* deviation: a message with the caller's id AND a method completes the call
  FifoWaiters               \* model the memory stream's queue of blocked receivers

Other == "other"            \* an id / token that belongs to no caller
Ids   == Callers \cup {Other}
None  == [k |-> "none", id |-> Other, n |-> 0, at |-> 0]

\* message kinds:
\*  resp   result response bearing id          err    error response bearing id
\*  sreq   server-initiated request with id    notif  notification (no id)
\*  prog   notifications/progress with progressToken = token of caller `id`
\*  batch  a list (no id attribute)
HasId(m) == m.k \in {"resp", "err", "sreq"}
IsResp(m) == m.k \in {"resp", "err"}

VARIABLES
  now,          \* clock
  inq,          \* the read stream: messages put there and not yet received
  narr,         \* arrivals so far
  cfg,          \* cfg[c]: [T |-> timeout, tok |-> has cancellation token, cb |-> has progress callback, raiseAt |-> k: k-th callback raises (0 never)]
  st,           \* "idle" | "wait" | "done"
  deadline,     \* armed outer deadline
  pollAt,       \* armed sub-timeout
  outcome,      \* [kind, src, t, pre]
  reqWritten,   \* number of requests with the caller's id written
  cancelNotifs, \* number of notifications/cancelled naming the caller's id written
  cancelled,    \* token triggered
  cancelAt,     \* when
  progLog,      \* arrival indices for which the callback was invoked, in order
  progArr,      \* arrivals of prog messages bearing the caller's token: seq of [n, at]
  firstMatch,   \* first arrived response (resp/err) bearing the caller's id, or None
  startedAt,
  entering,     \* callers inside receive() before its buffer check (one yield)
  waitq,        \* blocked receivers, in the order they blocked
  hand          \* hand[c]: the message handed to blocked receiver c and not yet processed, or None

vars == <<now, inq, narr, cfg, st, deadline, pollAt, outcome, reqWritten, cancelNotifs,
          cancelled, cancelAt, progLog, progArr, firstMatch, startedAt, entering, waitq, hand>>
rx == <<entering, waitq, hand>>

NoOutcome == [kind |-> "none", src |-> None, t |-> 0, pre |-> FALSE]

InitWith(f) ==
  /\ now = 0 /\ inq = <<>> /\ narr = 0
  /\ cfg = f
  /\ st = [c \in Callers |-> "idle"]
  /\ deadline = [c \in Callers |-> 0]
  /\ pollAt = [c \in Callers |-> 0]
  /\ outcome = [c \in Callers |-> NoOutcome]
  /\ reqWritten = [c \in Callers |-> 0]
  /\ cancelNotifs = [c \in Callers |-> 0]
  /\ cancelled = [c \in Callers |-> FALSE]
  /\ cancelAt = [c \in Callers |-> 0]
  /\ progLog = [c \in Callers |-> <<>>]
  /\ progArr = [c \in Callers |-> <<>>]
  /\ firstMatch = [c \in Callers |-> None]
  /\ startedAt = [c \in Callers |-> 0]
  /\ entering = {} /\ waitq = <<>> /\ hand = [c \in Callers |-> None]

Init == \E f \in [Callers -> Configs] : InitWith(f)

Waiting == {c \in Callers : st[c] = "wait"}
Without(q, c) == SelectSeq(q, LAMBDA x : x # c)

\* completion of caller c
Done(c, kind, src, pre) ==
  /\ st' = [st EXCEPT ![c] = "done"]
  /\ outcome' = [outcome EXCEPT ![c] = [kind |-> kind, src |-> src, t |-> now, pre |-> pre]]

\* top of the `while True` loop of _await_response: cancellation check, then re-arm the
\* 0.5 s sub-timeout.  check_and_send_cancellation writes the notification and raises.
Loop(c) ==
  IF cfg[c].tok /\ cancelled[c]
  THEN /\ cancelNotifs' = [cancelNotifs EXCEPT ![c] = @ + 1]
       /\ Done(c, "cancelled", None, FALSE)
       /\ UNCHANGED <<pollAt, entering>>
  ELSE /\ pollAt' = [pollAt EXCEPT ![c] = now + P]
       /\ entering' = IF FifoWaiters THEN entering \cup {c} ELSE entering
       /\ UNCHANGED <<cancelNotifs, st, outcome>>

\* send_message up to and including the first loop iteration's arming of the timers
Start(c) ==
  /\ st[c] = "idle"
  /\ startedAt' = [startedAt EXCEPT ![c] = now]
  /\ IF cfg[c].tok /\ cancelled[c]
     THEN \* cancelled before sending: notification, CancelledError, request never written
          /\ cancelNotifs' = [cancelNotifs EXCEPT ![c] = @ + 1]
          /\ Done(c, "cancelled", None, TRUE)
          /\ UNCHANGED <<reqWritten, deadline, pollAt, entering>>
     ELSE /\ reqWritten' = [reqWritten EXCEPT ![c] = @ + 1]
          /\ st' = [st EXCEPT ![c] = "wait"]
          /\ deadline' = [deadline EXCEPT ![c] = now + cfg[c].T]
          /\ pollAt' = [pollAt EXCEPT ![c] = now + P]
          /\ entering' = IF FifoWaiters THEN entering \cup {c} ELSE entering
          /\ UNCHANGED <<cancelNotifs, outcome>>
  /\ UNCHANGED <<now, inq, narr, cfg, cancelled, cancelAt, progLog, progArr, firstMatch, waitq, hand>>

\* receive() after its initial yield: the head of the buffer, or the back of the queue
EnterRecv(c) ==
  /\ FifoWaiters /\ c \in entering /\ st[c] = "wait"
  /\ entering' = entering \ {c}
  /\ IF inq # <<>>
     THEN /\ hand' = [hand EXCEPT ![c] = Head(inq)] /\ inq' = Tail(inq) /\ UNCHANGED waitq
     ELSE /\ waitq' = Append(waitq, c) /\ UNCHANGED <<hand, inq>>
  /\ UNCHANGED <<now, narr, cfg, st, deadline, pollAt, outcome, reqWritten, cancelNotifs, cancelled, cancelAt,
                 progLog, progArr, firstMatch, startedAt>>

\* what one received message does to caller c
Terminal(c, m) ==
  /\ HasId(m) /\ m.id = c
  /\ (m.k = "sreq" => SameIdRequestIsResponse)

ProgressHit(c, m) == cfg[c].cb /\ m.k = "prog" /\ m.id = c

\* the message caller c processes next, if any
CanRecv(c) == IF FifoWaiters THEN hand[c] # None ELSE inq # <<>>
NextFor(c) == IF FifoWaiters THEN hand[c] ELSE Head(inq)

Recv(c) ==
  /\ st[c] = "wait" /\ CanRecv(c) /\ now <= deadline[c]
  /\ LET m == NextFor(c) IN
     /\ IF FifoWaiters
        THEN hand' = [hand EXCEPT ![c] = None] /\ UNCHANGED <<inq, waitq>>
        ELSE inq' = Tail(inq) /\ UNCHANGED <<hand, waitq>>
     /\ IF ProgressHit(c, m)
        THEN \* callback invoked (it may raise: logged and swallowed), keep waiting
             /\ progLog' = [progLog EXCEPT ![c] = Append(@, m.n)]
             /\ Loop(c)
        ELSE /\ UNCHANGED progLog
             /\ IF Terminal(c, m)
                THEN /\ Done(c, IF m.k = "err" THEN "error" ELSE "result", m, FALSE)
                     /\ UNCHANGED <<cancelNotifs, pollAt, entering>>
                ELSE Loop(c)        \* skipped: other id, notification, batch, foreign progress
  /\ UNCHANGED <<now, narr, cfg, deadline, reqWritten, cancelled, cancelAt, progArr, firstMatch, startedAt>>

\* the sub-timeout cancels a BLOCKED receive (a handed message wins over the cancellation)
PollTimeout(c) ==
  /\ st[c] = "wait" /\ now = pollAt[c] /\ now <= deadline[c]
  /\ (FifoWaiters => hand[c] = None /\ c \notin entering)
  /\ waitq' = Without(waitq, c)
  /\ Loop(c)
  /\ UNCHANGED <<now, inq, narr, cfg, deadline, reqWritten, cancelled, cancelAt, progLog, progArr, firstMatch, startedAt, hand>>

Deadline(c) ==
  /\ st[c] = "wait" /\ now = deadline[c]
  /\ Done(c, "timeout", None, FALSE)
  /\ waitq' = Without(waitq, c) /\ entering' = entering \ {c} /\ hand' = [hand EXCEPT ![c] = None]
  /\ UNCHANGED <<now, inq, narr, cfg, deadline, pollAt, reqWritten, cancelNotifs, cancelled, cancelAt, progLog, progArr, firstMatch, startedAt>>

\* ---- environment ----
ArriveMsg(m) ==
  /\ IF FifoWaiters /\ waitq # <<>>
     THEN /\ hand' = [hand EXCEPT ![Head(waitq)] = m] /\ waitq' = Tail(waitq) /\ UNCHANGED inq
     ELSE /\ inq' = Append(inq, m) /\ UNCHANGED <<hand, waitq>>
  /\ narr' = narr + 1
  /\ firstMatch' = IF IsResp(m) /\ m.id \in Callers /\ firstMatch[m.id] = None
                   THEN [firstMatch EXCEPT ![m.id] = m] ELSE firstMatch
  /\ progArr' = IF m.k = "prog" /\ m.id \in Callers
                THEN [progArr EXCEPT ![m.id] = Append(@, [n |-> m.n, at |-> m.at])] ELSE progArr
  /\ UNCHANGED <<now, cfg, st, deadline, pollAt, outcome, reqWritten, cancelNotifs, cancelled, cancelAt, progLog, startedAt, entering>>

ArriveKI(k, i) ==
  /\ narr < MaxArr
  /\ (k \in {"notif", "batch"} => i = Other)
  /\ ArriveMsg([k |-> k, id |-> i, n |-> narr + 1, at |-> now])
Arrive == \E k \in Kinds, i \in Ids : ArriveKI(k, i)

Cancel(c) ==
  /\ cfg[c].tok /\ ~cancelled[c] /\ st[c] # "done"
  /\ cancelled' = [cancelled EXCEPT ![c] = TRUE]
  /\ cancelAt' = [cancelAt EXCEPT ![c] = now]
  /\ UNCHANGED <<now, inq, narr, cfg, st, deadline, pollAt, outcome, reqWritten, cancelNotifs, progLog, progArr, firstMatch, startedAt, entering, waitq, hand>>

Timers == {deadline[c] : c \in Waiting} \cup {pollAt[c] : c \in Waiting}

AdvanceTo(t) ==
  /\ t > now
  /\ \A u \in Timers : u >= t           \* never past an armed timer
  /\ \A u \in Timers : u > now          \* every timer due now has fired
  /\ IF FifoWaiters
     THEN entering = {} /\ \A c \in Callers : hand[c] = None      \* entering and processing take no time
     ELSE (Waiting # {} => inq = <<>>)                               \* receiving is urgent
  /\ now' = t
  /\ UNCHANGED <<inq, narr, cfg, st, deadline, pollAt, outcome, reqWritten, cancelNotifs, cancelled, cancelAt, progLog, progArr, firstMatch, startedAt, entering, waitq, hand>>

Advance ==
  /\ \E c \in Callers : st[c] # "done"
  /\ now < MaxTime
  /\ AdvanceTo(now + 1)

Next ==
  \/ \E c \in Callers : Start(c) \/ EnterRecv(c) \/ Recv(c) \/ PollTimeout(c) \/ Deadline(c) \/ Cancel(c)
  \/ Arrive
  \/ Advance

Spec == Init /\ [][Next]_vars

-----------------------------------------------------------------------------
(* Properties.  Each is a clause of a statement in properties.jsonl.        *)

TypeOK ==
  /\ now \in 0..MaxTime /\ narr \in 0..MaxArr
  /\ \A c \in Callers : st[c] \in {"idle", "wait", "done"}
  /\ \A c \in Callers : outcome[c].kind \in {"none", "result", "error", "timeout", "cancelled"}

\* the receive queue: messages are buffered only while nobody is blocked, a caller is in at most
\* one place, and only waiting callers are anywhere
RxInv ==
  /\ (inq # <<>> => waitq = <<>>)
  /\ \A c \in Callers :
        /\ (c \in entering \/ hand[c] # None \/ \E i \in DOMAIN waitq : waitq[i] = c) => st[c] = "wait"
        /\ ~(c \in entering /\ hand[c] # None)
        /\ \A i \in DOMAIN waitq : waitq[i] = c => c \notin entering /\ hand[c] = None
  /\ \A i, j \in DOMAIN waitq : i # j => waitq[i] # waitq[j]

\* C01/C18: a call completes normally or with a JSON-RPC error only on the first response
\* (a message without a method) bearing its own id
OnlyOwnResponse ==
  \A c \in Callers : outcome[c].kind \in {"result", "error"} =>
     /\ IsResp(outcome[c].src)
     /\ outcome[c].src.id = c
NoCrossTalk == \A c \in Callers : outcome[c].kind \in {"result", "error"} => outcome[c].src.id = c
FirstResponse ==
  \A c \in Callers : outcome[c].kind \in {"result", "error"} /\ IsResp(outcome[c].src) /\ outcome[c].src.id = c
     => outcome[c].src.n = firstMatch[c].n

\* C01: exactly one request written before waiting starts
ExactlyOneRequest ==
  \A c \in Callers :
     /\ reqWritten[c] <= 1
     /\ (st[c] = "wait" => reqWritten[c] = 1)
     /\ (st[c] = "done" /\ ~outcome[c].pre => reqWritten[c] = 1)
     /\ (st[c] = "idle" => reqWritten[c] = 0)

\* C01: no response => timeout (or cancellation), never a return
TimeoutIfNone ==
  \A c \in Callers : st[c] = "done" /\ firstMatch[c] = None => outcome[c].kind \in {"timeout", "cancelled"}

\* C07: an error response never completes a request normally
ErrNeverNormal ==
  \A c \in Callers : st[c] = "done" /\ outcome[c].src.k = "err" => outcome[c].kind = "error"

\* C14
EndsByDeadline == \A c \in Callers : st[c] = "wait" => now <= deadline[c]
EndedByDeadline == \A c \in Callers : st[c] = "done" /\ ~outcome[c].pre => outcome[c].t <= startedAt[c] + cfg[c].T
CancelPrompt ==
  \A c \in Callers : st[c] = "wait" /\ cancelled[c] => now <= cancelAt[c] + P
CancelPromptDone ==
  \A c \in Callers : st[c] = "done" /\ cfg[c].tok /\ cancelled[c] /\ ~outcome[c].pre
                        /\ cancelAt[c] >= startedAt[c] /\ cancelAt[c] <= outcome[c].t
     => outcome[c].t <= cancelAt[c] + P
CancelOutcome ==
  \A c \in Callers : outcome[c].kind = "cancelled" =>
      /\ cfg[c].tok /\ cancelled[c] /\ cancelAt[c] <= outcome[c].t
OneCancelNotif ==
  \A c \in Callers :
     /\ cancelNotifs[c] = IF outcome[c].kind = "cancelled" THEN 1 ELSE 0
NeverSentIfPreCancelled ==
  \A c \in Callers : outcome[c].pre => reqWritten[c] = 0 /\ outcome[c].kind = "cancelled"
PreCancelledNeverSent ==
  \A c \in Callers : st[c] # "idle" /\ cancelled[c] /\ cfg[c].tok /\ cancelAt[c] < startedAt[c] => reqWritten[c] = 0

\* the callback log is an in-order, duplicate-free selection of own-token progress arrivals
RECURSIVE IsSubSeq(_, _)
IsSubSeq(s, t) ==
  IF s = <<>> THEN TRUE
  ELSE IF t = <<>> THEN FALSE
  ELSE IF Head(s) = Head(t).n THEN IsSubSeq(Tail(s), Tail(t)) ELSE IsSubSeq(s, Tail(t))
ProgressSound ==
  \A c \in Callers : IF cfg[c].cb THEN IsSubSeq(progLog[c], progArr[c]) ELSE progLog[c] = <<>>
\* with a single caller nothing else consumes the stream, so the log is exact:
\* every own-token progress that arrived before the terminal message / strictly before the
\* completion instant has been notified
ProgressExactIf(solo) ==
  solo =>
  \A c \in Callers : st[c] = "done" /\ cfg[c].cb /\ ~outcome[c].pre =>
     \A i \in 1..Len(progArr[c]) :
        LET p == progArr[c][i] IN
        (IF outcome[c].kind \in {"result", "error"} THEN p.n < outcome[c].src.n
         ELSE p.at < outcome[c].t /\ p.at >= startedAt[c])
        => \E j \in 1..Len(progLog[c]) : progLog[c][j] = p.n

ProgressExact == ProgressExactIf(Cardinality(Callers) = 1)

\* C18: a response sent within the deadline is received by its caller
NoLostResponse ==
  \A c \in Callers :
     st[c] = "done" /\ firstMatch[c] # None /\ ~outcome[c].pre
       /\ firstMatch[c].at >= startedAt[c]
       /\ firstMatch[c].at < startedAt[c] + cfg[c].T /\ outcome[c].kind # "cancelled"
     => outcome[c].kind \in {"result", "error"}

=============================================================================
