"""Back-end worker for C17 (and C02/C09/C10 serialisation): started twice, once with orjson
importable and once with it blocked (VERIF_NO_ORJSON=1 -> sys.modules['orjson'] = None before
chuk_mcp is imported).  Protocol: one JSON request on stdin, one JSON reply on stdout."""
import json
import os
import sys

if os.environ.get("VERIF_NO_ORJSON") == "1":
    sys.modules["orjson"] = None


def tag(x):
    """tagged tree: value and JSON type made explicit (ints as decimal strings, floats by hex)"""
    if x is None:
        return ["null"]
    if x is True:
        return ["true"]
    if x is False:
        return ["false"]
    if isinstance(x, int):
        return ["int", str(x)]
    if isinstance(x, float):
        return ["float", x.hex()]
    if isinstance(x, str):
        return ["str", [ord(c) for c in x]]
    if isinstance(x, list):
        return ["list", [tag(v) for v in x]]
    if isinstance(x, dict):
        return ["dict", [[[ord(c) for c in k], tag(v)] for k, v in x.items()]]
    return ["other", type(x).__name__]


def untag(t):
    k = t[0]
    if k == "null":
        return None
    if k == "true":
        return True
    if k == "false":
        return False
    if k == "int":
        return int(t[1])
    if k == "float":
        return float.fromhex(t[1])
    if k == "str":
        return "".join(chr(c) for c in t[1])
    if k == "list":
        return [untag(v) for v in t[1]]
    if k == "dict":
        return {"".join(chr(c) for c in kk): untag(v) for kk, v in t[1]}
    raise ValueError(k)


def main():
    from chuk_mcp.protocol import fast_json

    req = json.load(sys.stdin)
    out = {"has_orjson": bool(fast_json.HAS_ORJSON), "results": []}
    if req["op"] == "encode":
        for t in req["values"]:
            v = untag(t)
            r = {}
            try:
                # which path: ask orjson directly whether it can take the value
                path = "stdlib"
                if fast_json.HAS_ORJSON:
                    try:
                        fast_json._orjson.dumps(v)
                        path = "orjson"
                    except Exception:
                        path = "fallback"
                s = fast_json.dumps(v)
                r = {"ok": True, "path": path, "text": [ord(c) for c in s], "isstr": isinstance(s, str)}
                # the other spellings of "compact" callers use: an explicit indent=None (the fallback
                # model base does), and dump() to a stream
                try:
                    import io
                    alt = fast_json.dumps(v, indent=None)
                    buf = io.StringIO()
                    fast_json.dump(v, buf)
                    alts = [alt, buf.getvalue()]
                    if fast_json.HAS_ORJSON:
                        bbuf = io.BytesIO()          # the stream kind the fast back end can write to
                        fast_json.dump(v, bbuf)
                        alts.append(bbuf.getvalue().decode("utf-8"))
                    r["altSame"] = bool(all("\n" not in a and "\r" not in a and tag(fast_json.loads(a)) == tag(v) for a in alts))
                except Exception:
                    r["altSame"] = False
            except Exception as e:
                r = {"ok": False, "path": "raised", "exc": type(e).__name__, "text": [], "isstr": False}
            out["results"].append(r)
    elif req["op"] == "deep":
        # chains nested deeper than any bounded grammar: [[[...[leaf]...]]] and {"k":{"k":...leaf}},
        # built, encoded, decoded and compared without recursion
        sys.setrecursionlimit(20000)
        for depth in req["depths"]:
            for shape in ("list", "dict", "mixed"):
                v = leaf = "leaf \u00e9"
                for i in range(depth):
                    v = [v] if shape == "list" or (shape == "mixed" and i % 2) else {"k": v}
                r = {"depth": depth, "shape": shape, "encoded": False, "text": "", "decodedOk": {}, "path": "stdlib"}
                if fast_json.HAS_ORJSON:
                    try:
                        fast_json._orjson.dumps(v)
                        r["path"] = "orjson"
                    except Exception:
                        r["path"] = "fallback"
                try:
                    r["text"] = fast_json.dumps(v)
                    r["encoded"] = True
                except Exception as e:
                    r["exc"] = type(e).__name__
                out["results"].append(r)
    elif req["op"] == "deepdecode":
        sys.setrecursionlimit(20000)
        for item in req["items"]:
            ok = False
            try:
                v = fast_json.loads(item["text"])
                d = 0
                while isinstance(v, (list, dict)):
                    if isinstance(v, list):
                        if len(v) != 1:
                            break
                        v = v[0]
                    else:
                        if list(v) != ["k"]:
                            break
                        v = v["k"]
                    d += 1
                ok = d == item["depth"] and v == "leaf \u00e9"
            except Exception:
                ok = False
            out["results"].append({"ok": bool(ok)})
    elif req["op"] == "decode":
        for cps, asbytes in req["texts"]:
            s = "".join(chr(c) for c in cps)
            try:
                v = fast_json.loads(s.encode("utf-8") if asbytes else s)
                # load() from a stream must read the same value
                import io
                v2 = fast_json.load(io.BytesIO(s.encode("utf-8")) if asbytes else io.StringIO(s))
                same = tag(v2) == tag(v)
                out["results"].append({"ok": bool(same), "tree": tag(v)})
            except Exception as e:
                out["results"].append({"ok": False, "exc": type(e).__name__, "tree": ["other", "raised"]})
    json.dump(out, sys.stdout)


if __name__ == "__main__":
    main()
