"""Regenerate the seeded-change table in DESIGN.md (between the seedtable markers) from
seeded/RESULTS.json and each seed's meta.json."""
import json
import os
import re

ROOT = os.path.dirname(os.path.dirname(os.path.abspath(__file__)))


def main():
    res = json.load(open(os.path.join(ROOT, "seeded", "RESULTS.json")))
    rows = ["| seeded change | what it needs | caught by | history |", "|---|---|---|---|"]
    late = 0
    missed = []
    for name in sorted(res, key=lambda n: (n.split("_")[0], "r4" in n, "r3" in n, "r2" in n, n)):
        meta = json.load(open(os.path.join(ROOT, "seeded", name, "meta.json")))
        how = res[name]["how"]
        if how.startswith("NOT caught"):
            missed.append(name)
        elif not how.startswith("caught") and "caught by C06 from the start" not in how and "caught by C12 from the start" not in how and "caught by C05 from the start" not in how and "caught by C13 from the start" not in how:
            late += 1
        rows.append("| %s | %s | %s | %s |" % (name, meta["title"][:110].replace("|", "/"), res[name]["caught_by"], how.replace("|", "/")))
    rows.append("")
    rows.append("%d of %d seeded changes are detected by the quick tier of the named check; %d of them were missed,\nmasked or crashed the check when first tried and led to the strengthenings in the last column; not detected: %s.\nNames with `_r2` / `_r3` / `_r4` are the second, third and fourth rounds (written by fresh sub-agents after the earlier rounds' strengthenings\nhad been committed, and told which mechanisms had already been used)." % (len(res) - len(missed), len(res), late, ", ".join(missed) or "none"))
    p = os.path.join(ROOT, "DESIGN.md")
    s = open(p).read()
    s = re.sub(r"<!-- seedtable -->.*<!-- /seedtable -->", lambda _m: "<!-- seedtable -->\n" + "\n".join(rows) + "\n<!-- /seedtable -->", s, flags=re.S)
    open(p, "w").write(s)
    print("seed table: %d rows, %d late" % (len(res), late))


if __name__ == "__main__":
    main()
