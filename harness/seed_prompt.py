"""Prints the prompt for a mutation-seeding sub-agent (property text only, nothing from /verif)."""
import json, sys
pid, wt = sys.argv[1], sys.argv[2]
n = sys.argv[3] if len(sys.argv) > 3 else "2"
for l in open('/verif/properties.jsonl'):
    p = json.loads(l)
    if p['id'] == pid:
        break
print(f"""You are helping test a verification framework by seeding realistic bugs into a Python library.

The library is chuk-mcp (a Python implementation of the Model Context Protocol: JSON-RPC messages, version negotiation, stdio/SSE/HTTP transports over anyio). You have your OWN scratch git worktree of it at {wt} (a detached checkout). Work ONLY inside {wt} and /tmp/seedout/{pid}/ (create it). Do NOT touch /repo or /verif, and do not read anything under /verif.

How to run things: `cd {wt} && /venv/bin/python -m pytest -q -p no:cacheprovider -x` runs the test suite against the worktree's sources (pyproject sets pythonpath=src; takes about 2 minutes; 1273 tests pass on the unchanged tree). For your own scripts use `cd {wt} && PYTHONPATH={wt}/src /venv/bin/python your_script.py`. There is no network.

The semantic property under test:

  Title: {p['title']}
  Statement: {p['statement']}
  Quantified over: {p['quantifier']['text']}
  Relevant files: {', '.join(p['anchors']['files'])}

Your task: produce {n} DIFFERENT source changes (each a separate small patch to files under {wt}/src) that each BREAK this property, while the package still imports and the ENTIRE existing test suite still passes (run it and confirm: all tests that pass on the unchanged tree must still pass). Each change should look like a plausible mistake or "optimisation/refactor" a maintainer could make, and it must need something SPECIFIC to manifest: a particular interleaving or timing, a fault at a particular point, a multi-step sequence of operations, an unusual input, or two cooperating sites that each look fine alone. Do NOT produce changes that ordinary use would expose at once (e.g. every request failing). Make the mutants target different clauses/mechanisms of the property.

For each change k (k = 1..{n}) write into /tmp/seedout/{pid}/m<k>/ :
  - patch.diff : `git -C {wt} diff` of exactly that change relative to the unchanged worktree HEAD (apply with `git apply`); one change per patch, independent of the others (reset the worktree with `git -C {wt} checkout -- .` between changes)
  - demo.py : a small self-contained demonstration program (run as `PYTHONPATH=<tree>/src /venv/bin/python demo.py`) that exits 0 on the unchanged tree and exits non-zero (with a short message) on the changed tree, showing the property violated through the library's public behaviour. It must be deterministic and finish in < 30 s.
  - meta.json : {{"property": "{pid}", "title": "<one line>", "needs": "<what specific input/interleaving/sequence is needed for it to manifest>", "clause": "<which part of the statement breaks>", "tests_pass": true, "ran": ["<commands you ran>"]}}

Verify each yourself: (1) apply the patch to a clean worktree, run the full test suite -> all pass; (2) demo.py fails with the patch and passes without it. Leave the worktree clean (`git -C {wt} checkout -- .`) when done. In your final answer list, for each change, a 2-3 line description and the verification results. Be concrete and keep patches small (a few lines).""")
