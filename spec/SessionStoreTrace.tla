------------------------- MODULE SessionStoreTrace -------------------------
(* Recorded operation sequences of the real InMemorySessionManager / ProtocolHandler        *)
(* (harness/drivers/session_drv.py) replayed through SessionStore.  Every event carries the *)
(* operation, its arguments, its return value and the complete projected store afterwards   *)
(* (session ids renamed 1,2,3.. by first appearance, timestamps = model clock), so          *)
(* validation is deterministic.  A trace the specification cannot follow is a violation of  *)
(* the map behaviour at the event where it stops.                                           *)
EXTENDS SessionStore, TraceBatch

VARIABLES tid, l
tvars == <<vars, tid, l>>

Evs == Traces[tid]
Ev == Evs[l]
Is(op) == l <= Len(Evs) /\ Ev.op = op
Consume == l' = l + 1 /\ tid' = tid

Canon(st) == {<<s, st[s].client, st[s].version, st[s].created, st[s].last>> : s \in DOMAIN st}
Logged(arr) == {arr[i] : i \in DOMAIN arr}
StoreOk == Canon(store') = Logged(Ev.store)

TInit == tid \in 1..NT /\ l = 1 /\ Init

TNext ==
  \/ Is("Create") /\ Create(Ev.c, Ev.v) /\ ret'.v = Ev.ret /\ StoreOk /\ Consume
  \/ Is("Get") /\ Get(Ev.s) /\ StoreOk /\ Consume
       /\ IF ret'.k = "null" THEN Ev.ret = "null"
          ELSE Ev.ret = <<Ev.s, ret'.v.client, ret'.v.version, ret'.v.created, ret'.v.last>>
  \/ Is("Touch") /\ Touch(Ev.s) /\ ret'.v = Ev.ret /\ StoreOk /\ Consume
  \/ Is("Delete") /\ Delete(Ev.s) /\ ret'.v = Ev.ret /\ StoreOk /\ Consume
  \/ Is("Cleanup") /\ Cleanup(Ev.a) /\ ret'.v = Ev.ret /\ StoreOk /\ Consume
  \/ Is("List") /\ ListAndMutate /\ Canon(ret'.v) = Logged(Ev.ret) /\ StoreOk /\ Consume
  \/ Is("Count") /\ Count /\ ret'.v = Ev.ret /\ StoreOk /\ Consume
  \/ Is("Clear") /\ Clear /\ ret'.v = Ev.ret /\ StoreOk /\ Consume
  \/ Is("Tick") /\ clock' = clock + Ev.d /\ UNCHANGED <<store, nextSid, ret>> /\ Consume
  \/ Is("HandleInitialize") /\ Ev.ret.kind = "result"
       /\ \E a \in ServerSup : HandleInitialize(Ev.c, Ev.v, Ev.s, a) /\ a = Ev.ret.version
       /\ ret'.sid = Ev.ret.sid /\ StoreOk /\ Consume
  \/ Is("HandleRequest") /\ HandleRequest(Ev.s, Ev.m) /\ StoreOk /\ Consume

TSpec == TInit /\ [][TNext]_tvars

Judge ==
  /\ Reached(tid, l)
  /\ (l = Len(Evs) + 1 => Accept(tid))
=============================================================================
