"""Regenerates MANIFEST.json from the table below (python -m harness.manifest_gen)."""
import json
import os

VERIF = os.path.dirname(os.path.dirname(os.path.abspath(__file__)))

TECH = "TLA+ spec + TLC model checking; TLC-generated schedules replayed into the real code; recorded traces validated by TLC against the trace spec"

CHECKS = {
    "C01": dict(spec="RequestWait", ref="DESIGN.md §4 C01",
                text="TLC explores RequestWait exhaustively (1 caller, 3 arrivals of 6 kinds, poll/deadline ties) and every clause holds in the model; the environment schedules of the generation instance plus seeded random schedules are executed against the real send_message under a virtual clock and every recorded trace is validated by TLC against RequestWaitTrace (implementation-shaped spec, then total observer) with all clauses evaluated on the observed behaviour.",
                note="Trusted: TLC, the virtual-time event loop, the recording write stream; payload/params equality is compared by the driver and reaches TLC as a flag. Bounds: model constants; random schedules up to 12 arrivals on the 10 ms grid."),
    "C02": dict(spec="Envelope", ref="DESIGN.md §4 C02",
                text="Envelope defines the JSON-RPC 2.0 grammar over abstract envelopes (version, id class, method, params/result/error presence, integer code, string message), Kind and Valid, and the Construct -> Serialise -> Parse machine with the round-trip invariant; TLC checks it for the four message kinds. All 13 constructors of the package (typed classes, create_* helpers, legacy class methods) are called in both back-end processes for 10 ids x 9 payload shapes plus seeded payloads; both serialised forms are abstracted to envelopes and parsed back with parse_message; TLC judges emitted-valid, parser-accepts, same kind, same id (value and JSON type) and identical payload tree for every case. Emitters reached only through other code paths are judged where they are exercised (typed helpers C01/C07, server handler C08, transports C11/C12).",
                note="Trusted: TLC; tagged-tree equality and the envelope abstraction computed by the worker. Assurance inside a payload/id class is that of representatives plus seeded members."),
    "C03": dict(spec="Handshake", ref="DESIGN.md §4 C03",
                text="Handshake models send_initialize step by step (propose, answer, decide, send initialized, return + version tracking); TLC explores all 325 ordered supported lists over 3 real + 2 invented versions x 7 preferences x tracked/untracked x 18 server answers (209 440 states) and checks the proposal rule, success-only-on-offered, mismatch-raises, no/exactly-one initialized notification (and its position) and batching-tracks-version. TLC emits every (configuration, answer) pair; each is executed against the real send_initialize(_with_client_tracking) with a scripted responder under the virtual clock and the recorded trace is validated by TLC against the specification (strict, then observer), all clauses judged on the observed behaviour.",
                note="Trusted: TLC, the virtual clock, the recording write stream. For malformed results, JSON-RPC errors and silence only failure and absence of the notification are required."),
    "C04": dict(spec="Handshake", ref="DESIGN.md §4 C04",
                text="The server rule of Handshake (echo a supported version, otherwise answer a supported one; session records the answer) and the client/server pairing are checked by TLC on the paired instance (every client list x preference). Real ProtocolHandler.handle_message is driven with every requested-version class - quick: supported versions, neighbours, malformed, non-strings, absent and 4 000 seeded calendar-shaped strings; thorough: all 2 000 000 strings dddd-dd-dd of a 200-year window - and TLC judges answer and recorded session version; the real client is paired with the real server for all 4 550 client configurations and the traces are validated against Handshake.",
                note="Trusted: TLC; 'supported' is the tree's SUPPORTED_VERSIONS extracted on every run."),
    "C05": dict(spec="StdioFraming", ref="DESIGN.md §4 C05",
                text="StdioFraming specifies the reader over a stream description (line ends, well-formedness, positions inside multi-byte characters) with the environment choosing the cuts; TLC checks prefix, completeness and chunk-independence for every chunking with <= 2 cuts of ~190 generated streams (12 line kinds x 7 text classes x LF/CRLF, 1-2 lines, unterminated tails) and, as a vacuity guard, that per-chunk decoding dies on the same cut sets. TLC emits the chunkings; each is fed to the real _stdout_reader (StdioClient behind a process seam) and the per-chunk deliveries on the read and notification streams are validated by TLC against the specification; seeded long streams (up to 450 lines, > 100 messages per chunk) cover the bounded read stream.",
                note="Trusted: TLC, the process seam, the drain loop of the driver. Known finding: objects with a missing/wrong jsonrpc member are delivered (pinned by repository tests)."),
    "C06": dict(spec="StdioOut", ref="DESIGN.md §4 C06",
                text="StdioOut specifies the writer task: items accepted on the write stream (typed message, dict, compact string, three unserialisable shapes) are written one line each in order or dropped alone, and closing the write stream closes the child's stdin after the queue drains; TLC checks order/no-loss, closed-only-after-drain and (with fairness) close-reaches-child exhaustively for <= 4 items. Every behaviour of the 3-item instance (accept/write interleavings included) plus seeded scripts of up to 30 items with unserialisable items at every position run against the real _stdin_writer behind the process seam; TLC validates the recorded Accept/Line/CloseWrite/StdinClosed events against the specification, byte-level line facts arriving as a per-line flag.",
                note="Trusted: TLC, the process seam, the driver's byte-level line check (one LF at the end, no raw CR/LF inside, UTF-8, decoded value equals the item)."),
    "C07": dict(spec="ErrorClass", ref="DESIGN.md §4 C07",
                text="The error-code sets and helper list are extracted from the tree into TLA+ constants; TLC checks disjointness, partition of the named codes, equality with the documented sets and totality/agreement of the classification over all 1602 codes x helpers. Every code of both ranges plus seeded 64-bit codes is then sent as an error response (7 shapes) to real calls of every discovered request helper and to is_retryable_error, and TLC judges each observed outcome (class raised, code and message carried, False from the boolean helpers) against the specification. The ErrNeverNormal clause is also checked on RequestWait and on recorded send_message traces.",
                note="Trusted: TLC; the documented sets are transcribed from the pinned errors.py; 64-bit codes are abstracted to one class; send_initialize* are judged only for 'no normal return' (they convert version errors by design)."),
    "C08": dict(spec="ServerDispatch", ref="DESIGN.md §4 C08",
                text="ServerDispatch models handle_message step by step (lookup, invoke, reply) over message kind x method class (core, tool/resource returning/raising/nonsense/unknown/unhashable, custom ok/raises/nonsense/none, every MessageMethod.NOTIFICATION_* name, unregistered, random) x params shape x id class; TLC checks one-response-per-request, no-response-per-notification, never-raises and the statement's code table exhaustively, on the deviation-free design and on the model of the tree. Every case is then executed against a real MCPServer/ProtocolHandler and TLC judges the observed outcome (and the JSON line a stdio loop would print) against the clauses and against the implementation-shaped prediction (drift).",
                note="Trusted: TLC; the configured server in harness/drivers/server_drv.py; notification names extracted from MessageMethod. Known finding: a handler returning (None, sid) to a request (pinned by a repository test)."),
    "C09": dict(spec="Validate", ref="DESIGN.md §4 C09",
                text="Validate transcribes the part of the two validation semantics where they can differ on valid traffic - unions of primitives (RequestId, ProgressToken), unions of models discriminated by a Literal member, post-init invariants - as two operators Pyd and Fb; TLC checks Agree, id-keeps-type, content-keeps-variant and invariants-both-or-neither on every type x valid value, and shows that the pre-repair deviations violate them. Every McpPydanticBase subclass of the package (discovered in both back ends) gets type-directed valid wire objects (optional-member subsets, unknown members, nested nulls, aliases); two worker processes (Pydantic / MCP_FORCE_FALLBACK=1) validate and dump each; TLC judges both-accept, same variant at every level, same dump, and compares the union-core observations with the model's prediction per back end (drift).",
                note="Trusted: TLC, the type-directed generator (objects rejected by both back ends are counted as generator inadequacy, not judged). Transport configuration classes are excluded. Known finding: Root's file:// invariant under Pydantic (pinned by a test)."),
    "C10": dict(spec="Validate (losslessness), WireNames clause", ref="DESIGN.md §4 C10",
                text="Same generated objects and worker processes as C09: for each back end, validate then dump with wire names; TLC judges that every member of the input is preserved exactly (unknown members, aliased members under their wire names, nested nulls) and that added members are declared fields. All library functions that call model_dump are discovered by scanning the package; each is driven with every alias populated under both back ends and TLC judges that no Python attribute name with a different wire alias appears and that the wire name is present. A dump site without a driver fails the check.",
                note="Trusted: TLC, the losslessness comparison of the harness (flags), the discovery scan. Three dump sites are waived with a reason."),
    "C11": dict(spec="HttpTransport", ref="DESIGN.md §4 C11",
                text="HttpTransport specifies the serial sender loop, the outcome relation Allowed(kind, behaviour) of the statement (what may appear on the read stream for every way an endpoint can answer a POST) and session tracking; TLC enumerates the matrix of meaningful behaviours (6 statuses x 4 content types x 11 body classes x 7 SSE encodings x 3 transport exceptions x session header) and checks one-terminal, no-invention and session-most-recent on all sequences of length 2 (257 k states). Every matrix entry - alone with every id class (incl. 0 and \"\"), after a session-issuing response, and inside seeded sequences of length 4, each followed by a probe request - runs against the real http_client over a scripted httpx transport under the virtual clock; TLC judges every step (items on the read stream, Mcp-Session-Id header) without stopping at the first failure.",
                note="Trusted: TLC, the httpx MockTransport seam, the SSE encoder of the driver (produces the conformant encodings). The real-socket variant of DESIGN §4 is not built."),
    "C12": dict(spec="SseTransport", ref="DESIGN.md §4 C12",
                text="SseTransport models establishment (announced at once/slowly, HTTP error, connect error, stream ends, never announces), the future/POST/event race of one request (200 body, 202 then event, event then 202, 202 and silence, 500, exception, answer after the synthesised timeout), server-initiated messages and exit at any point, in model time; TLC checks live-or-raise, within-timeout, one-terminal and in-order delivery exhaustively and shows that the two pre-repair deviations violate them. Every schedule TLC generates is executed (2 seeds each in quick: chunkings of the event-stream bytes incl. cuts inside multi-byte characters, id shapes, announcement forms, exit path normal/exception/outer cancellation) against the real sse_client over a scripted httpx transport under the virtual clock; TLC judges the recorded entry outcome, read stream and released resources against the specification's clauses and the model's expectation for that schedule.",
                note="Trusted: TLC, the httpx MockTransport seam, the virtual clock (settling costs virtual milliseconds; exits wait 0.25 model units). The trace specification judges end-of-schedule clauses (observer), the race itself is model-checked."),
    "C13": dict(spec="Versioning, BatchGate", ref="DESIGN.md §4 C13",
                text="Versioning defines the numeric order, the string order ProtocolVersion.compare uses and the branch structure of supports_batching over triples; TLC checks on every grid point (quick: 2015..2035, thorough: the whole 2.1 M grid) that the orders agree, that the decision is 'older than 2025-06-18', that the code's branches implement it and that it is monotone. The real supports_batching, BatchProcessor and ProtocolVersion.compare are evaluated on all 2 100 000 strings in both tiers and TLC checks their run-length encoded decision vectors index by index. BatchGate specifies the transport rule (reject the whole batch with one -32600 / deliver valid members in order, drop invalid ones alone, version changes at any time); TLC checks its action properties and generates scripts that, with seeded longer ones, run against the real StdioClient behind a scripted process seam; each step's deliveries, notifications and bytes to the child are validated against the specification.",
                note="Trusted: TLC, the process seam (anyio.open_process replaced), the virtual clock. A trace the BatchGate specification cannot follow is a violation at that step (the specification is the statement)."),
    "C14": dict(spec="RequestWait", ref="DESIGN.md §4 C14",
                text="Same specification as C01 with cancellation tokens, progress callbacks and traffic patterns; deadline, cancellation-promptness, single-cancel-notification and exact-progress clauses are invariants checked by TLC on the model and on every recorded execution (including floods every 10 ms).",
                note="Trusted: TLC, the virtual clock (anyio deadlines are loop timers). Time is virtual; real-time scheduling jitter is out of scope."),
    "C16": dict(spec="StdioLifecycle", ref="DESIGN.md §4 C16",
                text="StdioLifecycle models the shutdown protocol of __aexit__ (close outgoing, join tasks, terminate, grace period, kill) against children that obey or ignore SIGTERM or exit on their own, under normal exit, exception, outer cancellation and a timeout around the context; TLC checks no-child-left-behind, bounded exit and kill-only-after-terminate, and shows that the unshielded variant (the pre-fix behaviour) violates them. All 121 scenarios (11 child behaviours x 4 exit paths x 3 moments) run against REAL child processes with the real clock; terminate/kill/wait calls, exit duration, /proc process state, fd-table delta and the fate of the pending request are recorded and TLC judges the statement's end-state clauses on every run.",
                note="Real-time check: 2 s of grace plus 2.5 s slack; a duration-only failure is re-run alone before it is reported. Trusted: /proc observations, the process proxy. The trace specification is an observer of end-state clauses; the protocol itself is model-checked."),
    "C17": dict(spec="Codec", ref="DESIGN.md §4 C17",
                text="Codec specifies the two encoder paths (orjson / stdlib, with the fallback step), which character classes each writes raw or escaped, and the round trip per (encoder, decoder) pair; TLC checks one-frame (LF and CR are never raw) and round-trip on all class pairs. Two worker processes (orjson importable / blocked) encode every generated JSON value (all atoms over 15 string and 12 number classes, depth-2 containers, depth-3 message shapes, seeded strings over the whole code space, seeded signed/unsigned 64-bit integers) and each decodes both outputs from str and from bytes; TLC judges every case: encodes to a str, no raw LF/CR, exact tagged-tree equality under both decoders, and agreement with the path and escape model (drift).",
                note="Trusted: TLC, tagged-tree equality computed by the harness (ints exact, floats by float.hex, strings by code points). Assurance inside a character/number class is that of the representatives plus seeded members."),
    "C18": dict(spec="RequestWait", ref="DESIGN.md §4 C18",
                text="RequestWait with 2 callers is explored exhaustively by TLC; schedules with 2..4 concurrent callers are replayed into the real code and validated. NoCrossTalk holds; NoLostResponse is violated by design (a waiter discards another caller's response) and is a listed known finding; any other signature is reported.",
                note="The stream's wake-up policy is environment nondeterminism. Known finding keyed on clause=NoLostResponse consumer!=owner discarded."),
    "C19": dict(spec="SessionStore", ref="DESIGN.md §4 C19",
                text="SessionStore specifies the store as a map from fresh ids to timestamped records with one action per public operation (incl. initialize and request handling through the protocol handler); TLC checks id freshness, record stability and the exact-expiry action property exhaustively (3 sessions, clock 0..4, max_age 0..2). Maximal histories of the edge cover plus seeded random sequences are executed against the real InMemorySessionManager/ProtocolHandler under a model clock; every event logs arguments, return value and the full projected store, and TLC replays the trace through the specification deterministically - a trace it cannot follow is a violation at that operation.",
                note="Trusted: TLC, the clock seam (memory.time), renaming of real ids by first appearance. Bounds: model constants; random sequences of 40 (quick) / 200 (thorough) operations."),
    "C20": dict(spec="HostLaunch", ref="DESIGN.md §4 C20",
                text="HostLaunch models load -> spawn -> initialize for the three entry points over configuration classes and malformed-configuration classes; TLC checks that exactly the configured command lines are launched and initialized, and that malformed configurations surface as the documented exception (loader) or a reported failure without a spawn. Generated configuration files (args with spaces/quotes/shell metacharacters/Unicode/empty strings/40 args, env absent/empty/with values, timeout absent/int/float/string, extra keys, 1-4 servers) are run through the real load_config, __main__.test_server and run_command with witness children that record their argv and environment; TLC judges every observed case.",
                note="Trusted: the witness child, exact comparison of argv/env by the driver (flags to TLC). os.system('clear') is stubbed."),
}


def main():
    checks = []
    for pid in sorted(CHECKS):
        c = CHECKS[pid]
        checks.append({
            "property_id": pid,
            "quick_cmd": "./check %s --tier quick" % pid,
            "thorough_cmd": "./check %s --tier thorough" % pid,
            "evidence_file": "/verif/evidence/%s.json" % pid,
            "replay_cmd_template": "./check %s --replay {path}" % pid,
            "engine": "tlc",
            "level_claimed": {"category": "model_checking", "text": c["text"], "design_ref": c["ref"]},
            "level_note": c["note"],
            "technique": TECH + " (spec/%s.tla)" % c["spec"],
        })
    props = [json.loads(l)["id"] for l in open(os.path.join(VERIF, "properties.jsonl"))]
    na = [{"property_id": p, "reason": "not yet built in this round: the specification module and its conformance harness for this property are under construction (DESIGN.md §8); no check is claimed until it is quiet on the unchanged tree"}
          for p in props if p not in CHECKS]
    m = {
        "version": 1,
        "setup_cmd": "./check --setup",
        "hooks": {
            "guard": "CHUK_MCP_VERIF",
            "enable": "no source hooks are needed: observation uses public streams, return values and module-level seams (DESIGN.md §6.1)",
            "baseline_off_cmd": "cd /repo && /venv/bin/python -m pytest -ra -q -p no:cacheprovider --timeout=900 --continue-on-collection-errors",
            "source_commits": [],
            "add_only": True,
        },
        "engines": [{"name": "tlc", "path": "/verif/spec", "serves_properties": sorted(CHECKS),
                     "kind_free_text": "explicit TLA+ specifications checked with TLC 1.8; conformance by replaying TLC-generated schedules into the real code and by TLC validation of recorded traces"}],
        "checks": checks,
        "notes": "One CLI: ./check <id> [--tier quick|thorough] [--replay FILE]. Exit 0 held / 1 VIOLATION / 2 machinery failure. known_findings.json is read-only at run time.",
        "not_applicable": na,
    }
    with open(os.path.join(VERIF, "MANIFEST.json"), "w") as f:
        json.dump(m, f, indent=1)


if __name__ == "__main__":
    main()
