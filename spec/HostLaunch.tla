----------------------------- MODULE HostLaunch -----------------------------
(***************************************************************************)
(* Host entry points (C20):                                                *)
(*   chuk_mcp/config.py                         load_config                *)
(*   chuk_mcp/__main__.py                       test_server                *)
(*   chuk_mcp/mcp_client/host/server_manager.py run_command                *)
(* Each entry point loads the named server(s) from a configuration file,   *)
(* spawns exactly the configured command with the configured arguments and *)
(* environment, and reaches the initialize handshake.  A malformed         *)
(* configuration surfaces as the documented exception (loader) or as a     *)
(* reported failure without any spawn (CLI test, runner).                  *)
(* A host process may use the entry points several times (Relaunch) and    *)
(* its own environment may change in between (hostEpoch); a server without *)
(* a configured environment receives the host's inheritable variables as   *)
(* they are AT LAUNCH TIME, and a bare command name is resolved on the     *)
(* PATH the child is given (the configured one when an environment is      *)
(* configured, the host's otherwise).                                       *)
(* Deviations:                                                             *)
(*   RunnerPassesTuple   the runner hands the loader's (params, timeout)   *)
(*                       pair on as if it were the parameters              *)
(*   EnvSnapshotCached   the default environment is computed once per host *)
(*                       process and reused for later launches             *)
(*   RunnerResolvesOnHostPath  the runner resolves a bare command name on  *)
(*                       the host's PATH before spawning                   *)
(***************************************************************************)
EXTENDS Naturals, Sequences, FiniteSets, TLC

CONSTANTS NServers, RunnerPassesTuple, EnvSnapshotCached, RunnerResolvesOnHostPath, MaxRuns

Entries == {"loader", "cliTest", "runner"}
Malformed == {"none", "missingFile", "invalidJson", "unknownServer"}
ArgClasses == {"none", "plain", "spaces", "quotes", "unicode", "empty", "many"}
EnvClasses == {"absent", "empty", "values"}
TimeoutClasses == {"absent", "int", "float", "stringNumber"}
CmdClasses == {"absolute", "bare", "spacePath"}   \* bare: a name found (differently) on the configured and on the host PATH;
                                                   \* spacePath: an absolute path that contains blanks (one executable, not a command line)
NoSnapshot == 99
\* smaller class sets for model checking (argument and timeout classes do not influence any transition)
SmallArgs == {"plain", "unicode"}
SmallTimeouts == {"absent", "stringNumber"}

VARIABLES entry, malformed, cfg, phase, loaded, spawned, handshakes, outcome, run, hostEpoch, snapshot
vars == <<entry, malformed, cfg, phase, loaded, spawned, handshakes, outcome, run, hostEpoch, snapshot>>

Servers == 1..NServers
Init ==
  /\ entry \in Entries /\ malformed \in Malformed
  /\ cfg \in [Servers -> [args : ArgClasses, env : EnvClasses, timeout : TimeoutClasses, cmd : CmdClasses]]
  /\ phase = "start" /\ loaded = {} /\ spawned = <<>> /\ handshakes = {} /\ outcome = "none"
  /\ run = 1 /\ hostEpoch = 0 /\ snapshot = NoSnapshot

\* the loader entry loads one server; the CLI test one; the runner all of them
Targets == IF entry = "runner" THEN Servers ELSE {1}

Load ==
  /\ phase = "start"
  /\ IF malformed # "none"
     THEN /\ outcome' = (IF entry = "loader"
                         THEN CASE malformed = "missingFile" -> "FileNotFoundError"
                                [] malformed = "invalidJson" -> "JSONDecodeError"
                                [] malformed = "unknownServer" -> "ValueError"
                         ELSE "reportedFailure")
          /\ phase' = "done" /\ UNCHANGED loaded
     ELSE /\ loaded' = Targets
          /\ phase' = IF entry = "loader" THEN "done" ELSE "spawn"
          /\ outcome' = IF entry = "loader" THEN "params" ELSE outcome
  /\ UNCHANGED <<entry, malformed, cfg, spawned, handshakes, run, hostEpoch, snapshot>>

\* what the child of server n is given
EnvGiven(n) ==
  IF cfg[n].env = "values" THEN <<"configured", 0>>
  ELSE IF EnvSnapshotCached /\ snapshot # NoSnapshot THEN <<"host", snapshot>> ELSE <<"host", hostEpoch>>
ResolvedOn(n) ==
  IF cfg[n].cmd \in {"absolute", "spacePath"} THEN "absolute"
  ELSE IF entry = "runner" /\ RunnerResolvesOnHostPath THEN "hostPath"
  ELSE IF cfg[n].env = "values" THEN "configuredPath" ELSE "hostPath"
ExpectedEnv(n) == IF cfg[n].env = "values" THEN <<"configured", 0>> ELSE <<"host", hostEpoch>>
ExpectedResolution(n) ==
  IF cfg[n].cmd \in {"absolute", "spacePath"} THEN "absolute" ELSE IF cfg[n].env = "values" THEN "configuredPath" ELSE "hostPath"

\* spawn exactly the configured command line and environment for the next loaded server
Spawn ==
  /\ phase = "spawn" /\ Len(spawned) < Cardinality(loaded)
  /\ IF entry = "runner" /\ RunnerPassesTuple
     THEN /\ phase' = "done" /\ outcome' = "reportedFailure" /\ UNCHANGED <<spawned, snapshot>>      \* 'tuple' object has no attribute 'command'
     ELSE LET n == Len(spawned) + 1 IN
          /\ spawned' = Append(spawned, [server |-> n, args |-> cfg[n].args, env |-> cfg[n].env, given |-> EnvGiven(n), resolved |-> ResolvedOn(n)])
          /\ snapshot' = IF cfg[n].env # "values" /\ snapshot = NoSnapshot THEN hostEpoch ELSE snapshot
          /\ UNCHANGED <<phase, outcome>>
  /\ UNCHANGED <<entry, malformed, cfg, loaded, handshakes, run, hostEpoch>>

Initialize ==
  /\ phase = "spawn" /\ \E i \in DOMAIN spawned : spawned[i].server \notin handshakes
  /\ handshakes' = handshakes \cup {spawned[CHOOSE i \in DOMAIN spawned : spawned[i].server \notin handshakes].server}
  /\ UNCHANGED <<entry, malformed, cfg, phase, loaded, spawned, outcome, run, hostEpoch, snapshot>>

Finish ==
  /\ phase = "spawn" /\ Len(spawned) = Cardinality(loaded) /\ handshakes = loaded
  /\ phase' = "done" /\ outcome' = "connected"
  /\ UNCHANGED <<entry, malformed, cfg, loaded, spawned, handshakes, run, hostEpoch, snapshot>>

\* the same host process uses an entry point again; its own environment may have changed
Relaunch ==
  /\ phase = "done" /\ run < MaxRuns
  /\ run' = run + 1 /\ hostEpoch' \in {hostEpoch, hostEpoch + 1}
  /\ entry' \in Entries /\ phase' = "start"
  /\ loaded' = {} /\ spawned' = <<>> /\ handshakes' = {} /\ outcome' = "none"
  /\ UNCHANGED <<malformed, cfg, snapshot>>

Next == Load \/ Spawn \/ Initialize \/ Finish \/ Relaunch
Spec == Init /\ [][Next]_vars

-----------------------------------------------------------------------------
Done == phase = "done"
LaunchesExactlyConfigured ==
  Done /\ malformed = "none" /\ entry # "loader" =>
     /\ outcome = "connected"
     /\ Len(spawned) = Cardinality(Targets)
     /\ \A i \in DOMAIN spawned : spawned[i].args = cfg[spawned[i].server].args /\ spawned[i].env = cfg[spawned[i].server].env
     /\ handshakes = Targets
\* at every moment: what a child was given is what the configuration and the host say at its launch
EnvironmentAtLaunch == \A i \in DOMAIN spawned : spawned[i].given = ExpectedEnv(spawned[i].server)
CommandAsConfigured == \A i \in DOMAIN spawned : spawned[i].resolved = ExpectedResolution(spawned[i].server)
LoaderReturnsConfigured == Done /\ malformed = "none" /\ entry = "loader" => outcome = "params"
MalformedSurfaces ==
  Done /\ malformed # "none" =>
     /\ spawned = <<>>
     /\ (entry = "loader" => outcome = CASE malformed = "missingFile" -> "FileNotFoundError"
                                          [] malformed = "invalidJson" -> "JSONDecodeError"
                                          [] malformed = "unknownServer" -> "ValueError")
     /\ (entry # "loader" => outcome = "reportedFailure")
=============================================================================
