---------------------------- MODULE StdioRouting ----------------------------
(***************************************************************************)
(* Routing inside the stdio client (growth of the specification beyond the *)
(* listed statements; checked together with C05):                          *)
(*   chuk_mcp/transports/stdio/stdio_client.py  _route_message,            *)
(*   new_request_stream, _pending                                          *)
(* Every message the reader accepts goes to the main read stream exactly   *)
(* once, in order.  Notifications are additionally offered on the          *)
(* notification stream.  A caller may register a one-shot stream for a     *)
(* request id (legacy API): the first message bearing that id (compared as *)
(* text, as the code does) is additionally handed to it and the            *)
(* registration ends; it never takes a message away from the main stream.  *)
(***************************************************************************)
EXTENDS Naturals, Sequences, FiniteSets, TLC

CONSTANTS Ids, MaxMsgs

Kinds == {"resp", "notif", "req"}
VARIABLES pending, main, notify, legacy, n
vars == <<pending, main, notify, legacy, n>>

Init == pending = {} /\ main = <<>> /\ notify = <<>> /\ legacy = [i \in Ids |-> <<>>] /\ n = 0

Register(i) ==
  /\ i \notin pending
  /\ pending' = pending \cup {i}
  /\ UNCHANGED <<main, notify, legacy, n>>

\* the reader accepted message number n+1 of kind k bearing id i ("none" for notifications)
Route(k, i) ==
  /\ n < MaxMsgs /\ n' = n + 1
  /\ (k = "notif") = (i = "none")
  /\ main' = Append(main, n + 1)
  /\ notify' = IF k = "notif" THEN Append(notify, n + 1) ELSE notify
  /\ IF i \in pending
     THEN legacy' = [legacy EXCEPT ![i] = Append(@, n + 1)] /\ pending' = pending \ {i}
     ELSE UNCHANGED <<legacy, pending>>

Next == (\E i \in Ids : Register(i)) \/ (\E k \in Kinds, i \in Ids \cup {"none"} : Route(k, i))
Spec == Init /\ [][Next]_vars

MainGetsEverythingOnce == main = [j \in 1..n |-> j]
LegacyAtMostOnePerRegistration == \A i \in Ids : Len(legacy[i]) <= n
NotifySubset == \A j \in DOMAIN notify : notify[j] \in {main[q] : q \in DOMAIN main}
=============================================================================
