---------------------- MODULE HandshakeServerTrace ----------------------
(* C04, server side alone: one initialize request per case, carrying a requested           *)
(* protocolVersion value (as text; non-strings tagged "type:repr", absent = "ABSENT").       *)
(* The answer and the version recorded in the created session are judged against the        *)
(* server rule of Handshake: ServerAnswerTo (echo when supported, else a supported version). *)
EXTENDS Handshake, TraceBatch

VARIABLES tid
Case == Traces[tid]

Clauses == <<
  <<"Answers", ~Case.raised /\ ~Case.iserr>>,
  <<"AnswerSupported", ~Case.raised /\ ~Case.iserr => Case.answered \in ServerSup>>,
  <<"EchoWhenSupported", ~Case.raised /\ ~Case.iserr /\ Case.isstr /\ Case.req \in ServerSup => Case.answered = Case.req>>,
  <<"SessionCarriesAnswer", ~Case.raised /\ ~Case.iserr => Case.session = Case.answered>>
>>

TInit == tid \in 1..NT /\ InitWith(<<>>, "none", FALSE)
TNext == UNCHANGED <<vars, tid>>
TSpec == TInit /\ [][TNext]_<<vars, tid>>
Judge == JudgeAll(tid, Clauses, Case.req) /\ Accept(tid)
=============================================================================
