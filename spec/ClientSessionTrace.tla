------------------------ MODULE ClientSessionTrace ------------------------
(* Recorded runs of the real MCPClient (over StdioTransport behind the process seam, and    *)
(* over a recording in-memory Transport for several tasks) replayed through ClientSession.  *)
(* Events, in the order they happened:                                                      *)
(*   Enter / Exit                      the transport's async context                        *)
(*   Begin(t, kind, op)                a task calls initialize() or an operation            *)
(*   Wire(t, m)                        a message reached the server side: initialize,       *)
(*                                     initialized, or the operation's request              *)
(*   InitAnswer(t, a)                  what the scripted server answered to initialize      *)
(*   OpAnswer(t, ok)                   what it answered to the operation                    *)
(*                                     (the client processes an answer later: the step is   *)
(*                                     bound to the initialized notification / the return)  *)
(*   Return(t, out, inited, cached, tver)   the call returned / raised; the client's and    *)
(*                                     the transport's state as observable afterwards       *)
(* The `if initialized` test and the fetching of the streams are silent.  A run the         *)
(* specification cannot follow stops at the event it cannot explain.                        *)
EXTENDS ClientSession, TraceBatch

VARIABLES tid, l
tvars == <<vars, tid, l>>
Evs == Traces[tid]
Ev == Evs[l]
More == l <= Len(Evs)
Is(e) == More /\ Ev.e = e
Consume == l' = l + 1 /\ tid' = tid
Keep == UNCHANGED vars

LastOf(t) == LET I == {i \in DOMAIN results : results[i].by = t} IN
             IF I = {} THEN [out |-> "none"] ELSE results[CHOOSE i \in I : \A j \in I : j <= i]
StateAs(e) == inited' = e.inited /\ cached' = e.cached /\ tver' = e.tver

TInit == tid \in 1..NT /\ l = 1 /\ Init

TNext ==
  \/ Is("Enter") /\ Enter /\ Consume
  \/ Is("Exit") /\ Exit /\ Consume
  \/ Is("Begin") /\ Begin(Ev.t, Ev.kind, Ev.op) /\ Consume
  \/ Is("Wire") /\ Consume
       /\ CASE Ev.m = "initialize" -> Propose(Ev.t) /\ transport = "open"
            [] Ev.m = "initialized" -> InitProcess(Ev.t) /\ pending[Ev.t] \in Offered
            [] OTHER -> OpSend(Ev.t) /\ call[Ev.t].op = Ev.m
  \/ Is("InitAnswer") /\ InitReply(Ev.t, Ev.a) /\ Consume
  \/ Is("OpAnswer") /\ OpReply(Ev.t, Ev.ok) /\ Consume
  \/ Is("Return") /\ Consume
       /\ CASE pc[Ev.t] = "idle" -> LastOf(Ev.t).out = Ev.out /\ Keep                                   \* finished when it wrote initialized
            [] pc[Ev.t] = "answered" -> InitProcess(Ev.t) /\ pending[Ev.t] \notin Offered /\ pc'[Ev.t] = "idle"
                                         /\ results'[Len(results')].out = Ev.out
            [] pc[Ev.t] = "opAnswered" -> OpProcess(Ev.t) /\ results'[Len(results')].out = Ev.out
            [] OTHER -> (Check(Ev.t) \/ Propose(Ev.t) \/ OpSend(Ev.t)) /\ pc'[Ev.t] = "idle"              \* finished without traffic
                        /\ results'[Len(results')].out = Ev.out
       /\ StateAs(Ev)
  \* silent: the `if initialized` test; another waiting task dropping this task's answer
  \/ More /\ (\E t \in Tasks : Check(t) /\ pc'[t] # "idle") /\ UNCHANGED <<tid, l>>
  \/ More /\ (\E t \in Tasks : Stolen(t)) /\ UNCHANGED <<tid, l>>

TSpec == TInit /\ [][TNext]_tvars

Clauses == <<
  <<"HandshakeFirst", HandshakeFirst>>,
  <<"InitializedAfterInitialize", InitializedAfterInitialize>>,
  <<"VersionTracked", VersionTracked>>,
  <<"NotInitedNothingCached", NotInitedNothingCached>>,
  <<"NothingWithoutTransport", NothingWithoutTransport>>
>>
Judge ==
  /\ Reached(tid, l)
  /\ JudgeAll(tid, Clauses, l)
  /\ (l = Len(Evs) + 1 => Accept(tid))
=============================================================================
