---- MODULE GenHandshake ----
(* Environment choices of every Handshake behaviour: printed once per ServerAnswers step. *)
EXTENDS MC_Handshake, Json
Emit == (phase = "waiting" /\ phase' = "answered") =>
          PrintT(<<"PATH", ToJson([sup |-> sup, pref |-> pref, tracked |-> tracked, broken |-> wireBroken, a |-> answer'])>>)
====
