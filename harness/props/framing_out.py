"""C06: StdioOut against the real _stdin_writer behind the process seam."""
import json
import os
import random

from harness import tlc, validate, par
from harness.common import Machinery
from harness.drivers import stdio_drv as sd

CONSTS = {"Shapes": set(sd.OUT_SHAPES), "Bad": set(sd.OUT_BAD), "MaxItems": 100000}


def _run(arg):
    chunk, seed = arg
    return sd.run_out(chunk, seed)


def script_from_path(p, rng):
    s = []
    for i, st in enumerate(p):
        if st["op"] == "Accept":
            nxt = p[i + 1]["op"] if i + 1 < len(p) else "End"
            s.append({"op": "Accept", "shape": st["shape"], "text": rng.choice(sd.OUT_TEXTS), "idle": nxt == "Write"})
        elif st["op"] == "CloseWrite":
            s.append({"op": "CloseWrite"})
    return s


def random_script(rng, n):
    s = [{"op": "Accept", "shape": rng.choice(sd.OUT_SHAPES), "text": rng.choice(sd.OUT_TEXTS), "idle": rng.random() < 0.3} for _ in range(n)]
    if rng.random() < 0.8:
        s.append({"op": "CloseWrite"})
    return s


def check_c06(ctx):
    quick = ctx.tier == "quick"
    ctx.cov["rule"] = ("cases = scripts of Accept(shape, text class) / CloseWrite with the writer task interleaved as TLC's behaviours dictate: 9 item shapes (4 typed messages, dict, compact string, "
                       "3 unserialisable: object, dict holding an object, string with a lone surrogate) x 9 text classes (raw LF, CR, U+2028/0085, NUL, quotes, astral); all behaviours with <= 3 items from TLC, "
                       "plus seeded scripts of up to 30 items (unserialisable items at every position); distinct_nontrivial = distinct scripts")
    ctx.assumptions += ["a pre-serialised string is a compact JSON text (no raw line break); pretty-printed strings are outside the quantifier",
                        "byte-level facts (one LF, at the end, no raw CR, UTF-8, decoded value equal to the item) are checked by the driver and reach TLC as one flag per line"]
    r = tlc.run_tlc("StdioOut", "mc/StdioOut.cfg", work=os.path.join(ctx.work, "mc"), timeout=900, coverage=True)
    ctx.add_model_run("mc/StdioOut.cfg", r)
    if r.invariant_violated or r.property_violated:
        print("MODEL-STALE: StdioOut violates %s" % (r.invariant_violated + r.property_violated))
    for a, c in r.coverage().items():
        if a in ("AcceptItem", "WriteOne", "CloseWrite", "CloseStdin") and c[1] == 0:
            raise Machinery("action %s never taken" % a)
    g = tlc.run_tlc("GenStdioOut", "mc/GenStdioOut.cfg", work=os.path.join(ctx.work, "gen"), workers=1, timeout=900)
    ps = g.printed("PATH")
    if len(ps) < 100:
        raise Machinery("only %d paths" % len(ps))
    ctx.cov["model_runs"].append({"config": "mc/GenStdioOut.cfg", "paths_emitted": len(ps)})
    rng = random.Random(ctx.seed + 6)
    if quick and len(ps) > 6000:
        rng.shuffle(ps)
        ps = ps[:6000]
    scripts = [script_from_path(p, rng) for p in ps]
    scripts += [random_script(rng, rng.randrange(1, 30)) for _ in range(300 if quick else 5000)]
    # unserialisable at every position of a fixed good sequence
    base = ["typedReq", "dict", "str", "typedResp", "typedNotif", "typedErr"]
    for pos in range(len(base) + 1):
        for bad in sd.OUT_BAD:
            seq = base[:pos] + [bad] + base[pos:]
            scripts.append([{"op": "Accept", "shape": s, "text": rng.choice(sd.OUT_TEXTS), "idle": False} for s in seq] + [{"op": "CloseWrite"}])
    # a large message in flight while the reader task writes a batch rejection to the same stdin
    for _ in range(20 if quick else 300):
        pre = [{"op": "Accept", "shape": rng.choice(["typedReq", "dict", "str"]), "text": rng.choice(sd.OUT_TEXTS), "idle": False} for _ in range(rng.randrange(0, 3))]
        scripts.append(pre + [{"op": "Accept", "shape": "bigTyped", "text": "plain", "idle": False}, {"op": "ChildBatch"},
                              {"op": "Accept", "shape": "typedResp", "text": "plain", "idle": True}, {"op": "CloseWrite"}])
    chunks = [(scripts[i:i + 200], ctx.seed + i) for i in range(0, len(scripts), 200)]
    traces = [t for ch in par.pmap(_run, chunks, chunksize=1) for t in ch]
    # the same scripts with the fallback model back end (typed messages are dumped by it)
    nfb = len(scripts) // (4 if quick else 1)
    fchunks = [(scripts[i:i + 200], ctx.seed + i) for i in range(0, nfb, 200)]
    ftraces = [t for ch in par.pmap(_run, fchunks, chunksize=1, env={"MCP_FORCE_FALLBACK": "1"}) for t in ch]
    scripts = scripts + scripts[: len(ftraces)]
    traces = traces + ftraces
    res = validate.validate("StdioOutTrace", traces, CONSTS, work=os.path.join(ctx.work, "val"), chunk=1000)
    ctx.cov["states"] += res["states"]
    ctx.cov["transitions"] += res["transitions"]
    ctx.cov["traces_validated_against_impl"] += len(traces)
    ctx.cov["evaluations"] += len(traces)
    ctx.cov["distinct_nontrivial"] = len({json.dumps(s) for s in scripts})
    ctx.cov["samples"] = [{"script": scripts[0], "trace": traces[0]}, {"script": scripts[-1], "trace": traces[-1]}]
    for i, k in sorted(res["rejected"].items()):
        ev = traces[i][k - 1] if 0 < k <= len(traces[i]) else {}
        sig = "clause=OutboundOrder stopped-at=%s" % ev.get("e")
        ctx.report(sig, "event %d: %s; script %s" % (k, ev, json.dumps(scripts[i])[:300]), {"kind": "stdio_out", "script": scripts[i], "clause": sig})
    for i, cls in sorted(res["failed"].items()):
        for c in cls:
            if c != "x":
                ctx.report("clause=%s" % c, "script %s trace %s" % (json.dumps(scripts[i])[:200], json.dumps(traces[i])[:300]), {"kind": "stdio_out", "script": scripts[i], "clause": c})
