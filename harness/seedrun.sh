#!/bin/bash
# seedrun.sh <pid> <seeded name> [tier]  run a check against a seeded change.
# /repo itself is never written: the change is applied to a scratch worktree of /repo's HEAD outside
# /repo and /verif, the check is pointed at it with VERIF_REPO, and the worktree is removed on exit
# (also when this script is interrupted).
pid=$1; name=$2; tier=${3:-quick}
git -C /repo status --short | grep -q . && { echo "/repo not clean"; exit 2; }
scratch=$(mktemp -d /tmp/verif_seed_repo.XXXXXX) && rmdir "$scratch" || exit 2
cleanup() { git -C /repo worktree remove --force "$scratch" >/dev/null 2>&1; rm -rf "$scratch"; git -C /repo worktree prune; }
trap cleanup EXIT
trap 'exit 130' INT TERM HUP
git -C /repo worktree add --detach "$scratch" HEAD >/dev/null 2>&1 || exit 3
git -C "$scratch" apply /verif/seeded/$name/patch.diff || exit 3
cd /verif && VERIF_REPO="$scratch" ./check $pid --tier $tier > /tmp/seedrun_$name.log 2>&1; rc=$?
echo "seedrun $name: check $pid rc=$rc"; grep -E "^(VIOLATION|KNOWN|MACHINERY|MODEL)" /tmp/seedrun_$name.log | cut -c1-260 | head -5; tail -1 /tmp/seedrun_$name.log
