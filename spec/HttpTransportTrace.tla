------------------------ MODULE HttpTransportTrace ------------------------
(* Real http_client runs against a scripted httpx transport under the virtual clock.  A trace *)
(* is a sequence of POST steps; each logs the kind of message sent, the behaviour the scripted *)
(* endpoint showed, the Mcp-Session-Id header the POST carried and the items that appeared on  *)
(* the read stream before the next message was sent.  Every step is judged (the observer       *)
(* never stops, so one failing step does not hide the following ones):                         *)
(*   NoInvention / OneTerminal  observed items \in Allowed(kind, beh)                          *)
(*   SessionMostRecent          header = the most recent session id issued                     *)
EXTENDS HttpTransport, TraceBatch

VARIABLES tid, l
tvars == <<vars, tid, l>>
Evs == Traces[tid]
Ev == Evs[l]
More == l <= Len(Evs)
B == [status |-> Ev.beh.status, ctype |-> Ev.beh.ctype, body |-> Ev.beh.body, enc |-> Ev.beh.enc, exc |-> Ev.beh.exc, sess |-> Ev.beh.sess]
Obs == [i \in DOMAIN Ev.items |-> [k |-> Ev.items[i][1], id |-> Ev.items[i][2], src |-> Ev.items[i][3]]]

TInit == tid \in 1..NT /\ l = 1 /\ Init
TNext ==
  /\ More /\ l' = l + 1 /\ tid' = tid
  /\ n' = n + 1
  /\ posts' = Append(posts, [kind |-> Ev.kind, hdr |-> Ev.hdr, beh |-> B])
  /\ reads' = Append(reads, Obs)
  /\ session' = IF B.exc = "none" /\ B.status < 400 /\ B.sess # "absent" THEN B.sess ELSE session
  /\ UNCHANGED alive
TSpec == TInit /\ [][TNext]_tvars

StepClauses(i) == <<
  <<"Allowed", reads[i] \in Allowed(posts[i].kind, posts[i].beh)>>,
  <<"SessionMostRecent", posts[i].hdr = LastIssued(i - 1)>>
>>
Judge ==
  /\ Reached(tid, l)
  /\ (n > 0 => JudgeAll(tid, StepClauses(n), n))
  /\ (l = Len(Evs) + 1 => Accept(tid))
=============================================================================
