"""C09 / C10 (Validate, WireNames) and C02 (Envelope): the two validation back ends in two worker
processes; TLC judges every observed case."""
import json
import os
import random
import subprocess
import sys

from harness import tlc, validate
from harness.common import Machinery, REPO, VERIF
from harness.workers.codec_worker import tag, untag

TREE = {"FbUnionFirstMatch": False, "FbLiteralUnchecked": False, "PydSkipsPostInit": False}
EXCLUDED_PREFIXES = ("chuk_mcp.transports.",)      # transport configuration classes are not protocol traffic
WAIVED_SITES = {
    "chuk_mcp.protocol.messages.send_message:_await_response": "debug log only",
    "chuk_mcp.protocol.messages.send_message:_process_response": "returns the received envelope to the caller, nothing is emitted",
    "chuk_mcp.protocol.messages.sampling.send_messages:SamplingHandler.handle_create_message_request": "dumps a content model, which has no aliased member",
}
COVERED_SITES = {
    "chuk_mcp.protocol.messages.completions.send_messages:send_completion_complete",
    "chuk_mcp.protocol.messages.initialize.send_messages:send_initialize",
    "chuk_mcp.protocol.messages.roots.send_messages:handle_roots_list_request",
    "chuk_mcp.protocol.messages.sampling.send_messages:send_sampling_create_message",
    "chuk_mcp.protocol.types.content:content_to_dict",
    "chuk_mcp.protocol.types.elicitation:ElicitationHandler.request_user_input",
    "chuk_mcp.protocol.types.tools:tool_result_to_dict",
}


def worker(fallback, req, timeout=900):
    env = dict(os.environ)
    env["PYTHONPATH"] = VERIF + ":" + os.path.join(REPO, "src")
    env["PYTHONHASHSEED"] = "0"
    env.pop("VERIF_NO_ORJSON", None)
    if fallback:
        env["MCP_FORCE_FALLBACK"] = "1"
    else:
        env.pop("MCP_FORCE_FALLBACK", None)
    p = subprocess.run([sys.executable, "-B", "-m", "harness.workers.models_worker"], input=json.dumps(req), env=env, capture_output=True, text=True, timeout=timeout)
    if p.returncode != 0:
        raise Machinery("models worker failed: %s" % p.stderr[-1500:])
    out = json.loads(p.stdout)
    if bool(out["fallback"]) != bool(fallback):
        raise Machinery("models worker runs the wrong back end")
    return out


def lossless(wire, dump):
    """every member of the wire object is in the dump with the same value (recursively)"""
    if isinstance(wire, dict):
        if not isinstance(dump, dict):
            return False
        return all(k in dump and lossless(v, dump[k]) for k, v in wire.items())
    if isinstance(wire, list):
        return isinstance(dump, list) and len(wire) == len(dump) and all(lossless(a, b) for a, b in zip(wire, dump))
    if isinstance(wire, bool) or isinstance(dump, bool):
        return wire is dump
    if isinstance(wire, (int, float)) and isinstance(dump, (int, float)):
        return type(wire) is type(dump) and wire == dump
    return type(wire) is type(dump) and wire == dump


def added_ok(wire, dump, declared):
    """members the dump adds at the top level must be declared (defaulted) fields"""
    return all(k in declared for k in dump if k not in wire) if isinstance(dump, dict) and isinstance(wire, dict) else True


def special_cases():
    """hand-written valid shapes for classes whose members constrain each other"""
    err = {"code": -32000, "message": "m é", "data": {"k": None, "l": [None, 1]}}
    out = []
    for i in (1, 0, -3, 2**63 + 1, "abc", "", "123", "007"):
        out.append(("chuk_mcp.protocol.messages.json_rpc_message.JSONRPCError", {"jsonrpc": "2.0", "id": i, "error": err}))
        out.append(("chuk_mcp.protocol.messages.json_rpc_message.JSONRPCMessage", {"jsonrpc": "2.0", "id": i, "method": "m", "params": {"a": None}}))
        out.append(("chuk_mcp.protocol.messages.json_rpc_message.JSONRPCMessage", {"jsonrpc": "2.0", "id": i, "result": {"a": [None]}}))
        out.append(("chuk_mcp.protocol.messages.json_rpc_message.JSONRPCMessage", {"jsonrpc": "2.0", "id": i, "error": err}))
    out.append(("chuk_mcp.protocol.messages.json_rpc_message.JSONRPCMessage", {"jsonrpc": "2.0", "method": "n"}))
    return out


def run_models(ctx, quick):
    """shared by C09 and C10: returns the list of case records"""
    disc = worker(False, {"op": "discover"})
    discf = worker(True, {"op": "discover"})
    if set(disc["classes"]) != set(discf["classes"]):
        raise Machinery("the two back ends expose different model classes: %s" % (set(disc["classes"]) ^ set(discf["classes"])))
    gen = worker(False, {"op": "generate", "seed": ctx.seed + 9, "max_all": 5 if quick else 7, "samples": 6 if quick else 40, "reps": 1 if quick else 6})
    # the same object generated twice adds nothing
    seen = set()
    gen["cases"] = [c for c in gen["cases"] if not (json.dumps(c, sort_keys=True) in seen or seen.add(json.dumps(c, sort_keys=True)))]
    cases = [c for c in gen["cases"] if not c["cls"].startswith(EXCLUDED_PREFIXES)]
    cases = [c for c in cases if not c["cls"].endswith(("JSONRPCError", ".JSONRPCMessage"))]
    for cls, w in special_cases():
        cases.append({"cls": cls, "wire": tag(w)})
    recs = []
    # every object is validated in two processes per back end: in class order and in reverse class
    # order (what an earlier use of another class left behind must not matter), each time twice
    # (after every typed view of the first pass was edited in place)
    runs = []
    for rev in (False, True):
        rp = worker(False, {"op": "validate", "cases": cases, "two_pass": True, "reverse": rev})["results"]
        rf = worker(True, {"op": "validate", "cases": cases, "two_pass": True, "reverse": rev})["results"]
        runs.append((rp, rf))
    (rp, rf), (rp2, rf2) = runs
    for k in range(len(cases)):
        for x, y in ((rp[k], rp2[k]), (rf[k], rf2[k])):
            if x["ok"] != y["ok"] or x["dump"] != y["dump"] or x["typed"] != y["typed"]:
                x["stable"] = False
            x["stable"] = x["stable"] and y["stable"]
    for c, a, b in zip(cases, rp, rf):
        w = untag(c["wire"])
        declared = {f[1] for f in disc["classes"].get(c["cls"], [])}
        da = untag(a["dump"]) if a["ok"] else None
        db = untag(b["dump"]) if b["ok"] else None
        # the same view dumped with wire names but without dropping nulls must not lose anything either
        for x in (a, b):
            if x["ok"] and not lossless(w, untag(x.get("dump_alias_only", x["dump"]))):
                x["stable"] = False
        recs.append({"kind": "model", "cls": c["cls"].split(".")[-1], "okP": bool(a["ok"]), "okF": bool(b["ok"]),
                     "typedEq": a["typed"] == b["typed"], "dumpEq": a["dump"] == b["dump"],
                     "losslessP": bool(a["ok"] and a["stable"] and lossless(w, da) and added_ok(w, da, declared)),
                     "losslessF": bool(b["ok"] and b["stable"] and lossless(w, db) and added_ok(w, db, declared)),
                     "bothReject": (not a["ok"]) and (not b["ok"]), "wire": c["wire"], "full": c["cls"], "excP": a["exc"][:120], "excF": b["exc"][:120]})
    nclasses = len({c["cls"] for c in cases})
    return recs, nclasses, disc


def id_and_content_cases():
    """the union core: envelopes with every id shape, content unions with every variant"""
    cases = []
    meta = []
    ids = [("int", "0", 0), ("int", "7", 7), ("int", "-3", -3), ("int", "big", 2**63 + 1), ("str", "abc", "abc"), ("str", "", ""), ("str", "123", "123"), ("str", "007", "007"), ("str", "-5", "-5")]
    for t, name, v in ids:
        for cls, body in (("JSONRPCRequest", {"jsonrpc": "2.0", "id": v, "method": "m"}), ("JSONRPCResponse", {"jsonrpc": "2.0", "id": v, "result": {}}),
                          ("JSONRPCError", {"jsonrpc": "2.0", "id": v, "error": {"code": 1, "message": "m"}})):
            cases.append({"cls": "chuk_mcp.protocol.messages.json_rpc_message." + cls, "wire": tag(body)})
            meta.append(("id", "RequestId", [t, name], v))
    contents = {"text": {"type": "text", "text": "x"}, "image": {"type": "image", "data": "aGk=", "mimeType": "image/png"},
                "audio": {"type": "audio", "data": "aGk=", "mimeType": "audio/wav"}, "resource": {"type": "resource", "resource": {"uri": "file:///x", "text": "t"}}}
    for k, c in contents.items():
        cases.append({"cls": "chuk_mcp.protocol.messages.tools.send_messages.ToolResult" if False else "chuk_mcp.protocol.types.tools.ToolResult", "wire": tag({"content": [c]})})
        meta.append(("content", "ContentUnion", k, None))
        if k != "resource":     # sampling results carry text, image or audio
            cases.append({"cls": "chuk_mcp.protocol.messages.sampling.send_messages.CreateMessageResult", "wire": tag({"role": "assistant", "content": c, "model": "m"})})
            meta.append(("content", "ContentUnion2", k, None))
    return cases, meta


def _obs_id(r, v, name):
    if not r["ok"]:
        return ["reject", ""]
    d = untag(r["dump"])
    x = d.get("id")
    if isinstance(x, bool) or not isinstance(x, (int, str)):
        return ["other", ""]
    if isinstance(x, int):
        return ["int", name if x == v and isinstance(v, int) else ({7: "7", 123: "123", -5: "-5", 0: "0", -3: "-3"}.get(x, "big" if x == 2**63 + 1 else "othernum"))]
    return ["str", x if x in ("abc", "", "123", "007", "-5") else ({"0": "0", "7": "7", "-3": "-3"}.get(x, "otherstr"))]


def _obs_variant(r, listy):
    if not r["ok"] or not r["typed"]:
        return "reject"
    t = r["typed"][1].get("content")
    if t is None:
        return "untyped"
    if t[0] == "list":
        t = t[1][0]
    return t[0] if t else "untyped"


def run_union_core():
    cases, meta = id_and_content_cases()
    rp = worker(False, {"op": "validate", "cases": cases})["results"]
    rf = worker(True, {"op": "validate", "cases": cases})["results"]
    recs = []
    for c, m, a, b in zip(cases, meta, rp, rf):
        if m[0] == "id":
            recs.append({"kind": "id", "ty": m[1], "v": m[2], "obsP": _obs_id(a, m[3], m[2][1]), "obsF": _obs_id(b, m[3], m[2][1]), "cls": c["cls"].split(".")[-1]})
        else:
            recs.append({"kind": "content", "ty": m[1], "type": m[2], "obsP": _obs_variant(a, True), "obsF": _obs_variant(b, True), "cls": c["cls"].split(".")[-1]})
    return recs


def run_parse():
    """parse_message on spec-valid JSON-RPC envelopes: same class, same dump in both back ends"""
    results = [{}, {"a": None}, [], [1, None], "", "s", 0, 5, False, True, 1.5, {"nested": {"l": []}}]
    err = {"code": -32000, "message": "m"}
    bodies = []
    for i in (7, 0, "abc", ""):
        for res in results:
            bodies.append({"jsonrpc": "2.0", "id": i, "result": res})
        bodies.append({"jsonrpc": "2.0", "id": i, "error": err})
        bodies.append({"jsonrpc": "2.0", "id": i, "error": dict(err, data=[])})
        bodies.append({"jsonrpc": "2.0", "id": i, "method": "m"})
        bodies.append({"jsonrpc": "2.0", "id": i, "method": "m", "params": {}})
        bodies.append({"jsonrpc": "2.0", "id": i, "method": "m", "params": {"_meta": {}, "l": []}})
    bodies.append({"jsonrpc": "2.0", "method": "n"})
    bodies.append({"jsonrpc": "2.0", "method": "n", "params": {}})
    req = {"op": "parse", "cases": [{"wire": tag(b)} for b in bodies]}
    rp = worker(False, req)["results"]
    rf = worker(True, req)["results"]
    recs = []
    for b, a, f in zip(bodies, rp, rf):
        recs.append({"kind": "model", "cls": "parse_message", "okP": bool(a["ok"]), "okF": bool(f["ok"]), "typedEq": a["cls"] == f["cls"], "dumpEq": a["dump"] == f["dump"],
                     "losslessP": bool(a["ok"]), "losslessF": bool(f["ok"]), "bothReject": False, "wire": tag(b), "full": "parse_message", "excP": a["exc"] + " " + a["cls"], "excF": f["exc"] + " " + f["cls"]})
    return recs


def run_hooks():
    cases = [("CompletionMax100", "chuk_mcp.protocol.messages.completions.send_messages.CompletionResult", {"values": ["v%d" % i for i in range(101)]}),
             ("CompletionMax100-ok", "chuk_mcp.protocol.messages.completions.send_messages.CompletionResult", {"values": ["v%d" % i for i in range(100)]}),
             ("RootUriFile", "chuk_mcp.protocol.messages.roots.send_messages.Root", {"uri": "http://example.com/x"}),
             ("RootUriFile-ok", "chuk_mcp.protocol.messages.roots.send_messages.Root", {"uri": "file:///x"})]
    req = {"op": "hooks", "cases": [{"cls": c, "wire": tag(w)} for _, c, w in cases]}
    rp = worker(False, req)["results"]
    rf = worker(True, req)["results"]
    return [{"kind": "hook", "inv": n, "rejP": bool(a["rejected"]), "rejF": bool(b["rejected"])} for (n, _, _), a, b in zip(cases, rp, rf)]


def run_via():
    recs = []
    for fb in (False, True):
        o = worker(fb, {"op": "via"})
        unknown = set(o["dump_sites"]) - COVERED_SITES - set(WAIVED_SITES)
        if unknown:
            raise Machinery("library code paths that dump a model and have no driver: %s" % sorted(unknown))
        if not o["results"]:
            raise Machinery("no model-to-wire code path was exercised")
        for r in o["results"]:
            recs.append({"kind": "via", "helper": r["helper"], "backend": "fallback" if fb else "pydantic", "bad": r["bad"], "missing": r["missing"]})
    return recs


def model_check(ctx):
    r = tlc.run_tlc("Validate", "mc/Validate_fixed.cfg", work=os.path.join(ctx.work, "mc"), timeout=300, coverage=True)
    ctx.add_model_run("mc/Validate_fixed.cfg (the tree)", r)
    if r.invariant_violated:
        print("MODEL-STALE: Validate violates %s" % r.invariant_violated)
    rd = tlc.run_tlc("Validate", "mc/Validate_dev.cfg", work=os.path.join(ctx.work, "mc"), timeout=300, extra=["-continue"])
    ctx.add_model_run("mc/Validate_dev.cfg (pre-repair deviations)", rd)
    if not {"Agree", "IdKeepsType", "ContentKeepsVariant"} <= set(rd.invariant_violated):
        raise Machinery("the deviation instance of Validate does not show the known disagreements (vacuous model)")


def judge(ctx, recs, clauses, label):
    slim = [{k: v for k, v in r.items() if k not in ("wire", "full", "excP", "excF", "bothReject")} for r in recs]
    res = validate.validate("ValidateTrace", slim, TREE, work=os.path.join(ctx.work, "val_" + label), chunk=3000)
    if res["rejected"]:
        raise Machinery("validate cases not consumed")
    ctx.cov["states"] += res["states"]
    ctx.cov["transitions"] += res["transitions"]
    ctx.cov["traces_validated_against_impl"] += len(recs)
    ctx.cov["evaluations"] += len(recs)
    drift = 0
    for i, cls in sorted(res["failed"].items()):
        r = recs[i]
        for c in cls:
            if c == "Model":
                drift += 1
                ctx.note("model drift: %s" % json.dumps({k: v for k, v in r.items() if k != "wire"})[:300])
                continue
            if c not in clauses:
                continue
            if r["kind"] == "model" and r.get("bothReject"):
                continue        # the generated object is not spec-valid for either back end: generator inadequacy, counted below
            key = r.get("cls") or r.get("inv") or r.get("helper") or ""
            ctx.report("clause=%s %s=%s" % (c, r["kind"], key), json.dumps({k: v for k, v in r.items() if k != "wire"})[:400],
                       {"kind": "validate_case", "case": {k: v for k, v in r.items()}, "clause": c})
    ctx.cov["drift"] += drift


def check_c09(ctx):
    quick = ctx.tier == "quick"
    ctx.cov["rule"] = ("cases = (model class, generated spec-valid wire object): every McpPydanticBase subclass reachable from the package (discovered in both back ends) except transport configuration classes, "
                       "type-directed objects with all optional-member subsets (<= 5 optional members; otherwise none/all/each/seeded), unknown members at every model level, nested nulls, every alias; "
                       "JSON-RPC envelopes with 9 id shapes x 3 classes; content unions with every variant; the documented invalid inputs of the two stated invariants; distinct_nontrivial = distinct cases")
    ctx.assumptions += ["both back ends run in separate processes (MCP_FORCE_FALLBACK unset / =1)",
                        "objects that BOTH back ends reject are not spec-valid (generator inadequacy): counted in the evidence, not judged",
                        "transport parameter classes (chuk_mcp.transports.*) are configuration, not traffic: their Pydantic-only validators are outside the statement"]
    model_check(ctx)
    recs, ncls, _ = run_models(ctx, quick)
    both = sum(1 for r in recs if r["bothReject"])
    ctx.cov["model_classes"] = ncls
    ctx.cov["rejected_by_both"] = both
    if both > len(recs) // 5:
        raise Machinery("%d of %d generated objects are rejected by both back ends" % (both, len(recs)))
    core = run_union_core()
    hooks = run_hooks()
    allr = recs + run_parse() + core + hooks
    judge(ctx, allr, {"BothAccept", "SameVariant", "SameDump", "IdKeepsType", "ContentKeepsVariant", "InvariantsBothOrNeither"}, "c09")
    ctx.cov["distinct_nontrivial"] = len({json.dumps(r, sort_keys=True, default=str) for r in allr})
    ctx.cov["samples"] = [{k: v for k, v in recs[0].items() if k != "wire"}, core[6], hooks[0]]


def check_c10(ctx):
    quick = ctx.tier == "quick"
    ctx.cov["rule"] = ("cases = (model class, generated spec-valid wire object, back end): validate then dump with wire names; every member of the input must be in the dump with the same value and JSON type "
                       "(unknown members, aliased members under their wire names, nested nulls) and every added top-level member must be a declared field; plus every library code path that turns a model into wire data "
                       "(discovered by scanning the package for functions calling model_dump; each driven with all aliases populated) under both back ends; distinct_nontrivial = distinct cases")
    ctx.assumptions += ["a top-level null member is indistinguishable from an absent one under the exclude_none wire contract: optional members are generated present-and-non-null or absent",
                        "dump sites without a driver fail the check (exit 2); three are waived with a reason in harness/props/models.py"]
    model_check(ctx)
    recs, ncls, _ = run_models(ctx, quick)
    via = run_via()
    ctx.cov["model_classes"] = ncls
    allr = recs + via
    judge(ctx, allr, {"LosslessPydantic", "LosslessFallback", "WireNames"}, "c10")
    ctx.cov["distinct_nontrivial"] = len({json.dumps(r, sort_keys=True, default=str) for r in allr})
    ctx.cov["samples"] = [{k: v for k, v in recs[1].items() if k != "wire"}, via[0]]


# ---------------------------------------------------------------------------
# C02

EMITTERS = {
    "create_request": "request", "create_request_token": "request", "create_notification": "notification", "create_response": "result", "create_error_response": "error",
    "JSONRPCRequest": "request", "JSONRPCResponse": "result", "JSONRPCError": "error", "JSONRPCNotification": "notification",
    "legacy.create_request": "request", "legacy.create_notification": "notification", "legacy.create_response": "result", "legacy.create_error_response": "error",
    # messages written by the sending helpers (captured at the write stream) and built by the batch processor
    "send_message": "request", "send_tools_call": "request", "send_cancelled_notification": "notification", "send_progress_notification": "notification",
    "send_initialized_notification": "notification", "send_roots_list_changed.notifications": "notification", "send_roots_list_changed.roots": "notification",
    "handle_roots_list_request": "result", "handle_elicitation_request": "result", "handle_elicitation_request:fails": "error", "batch.rejection": "error",
    # a request as the transports' serialisers put it on the wire (stdin line / POST body)
    "stdio_writer": "request", "http_post": "request", "sse_post": "request",
    "batch.item_error:plain": "error", "batch.item_error:intcode": "error", "batch.item_error:strcode": "error", "batch.item_error:nullcode": "error", "batch.item_error:floatcode": "error",
}
OWN_PAYLOAD = {"send_cancelled_notification", "send_progress_notification", "send_initialized_notification", "send_roots_list_changed.notifications",
               "send_roots_list_changed.roots", "handle_roots_list_request", "handle_elicitation_request:fails"}
# where each function of the package that builds a JSON-RPC message is judged (emitter census; a
# site that is not listed is reported in the evidence and as a note - it has no driver yet)
EMITTER_SITES = {
    "chuk_mcp.protocol.features.batching:BatchProcessor.create_batch_rejection_error": "C02 batch.rejection, C06 (rejection line), C13",
    "chuk_mcp.protocol.features.batching:BatchProcessor.process_message_data": "C02 batch.item_error",
    "chuk_mcp.protocol.features.batching:test_version_batching_scenarios": "self-test helper, builds inputs only",
    "chuk_mcp.protocol.messages.initialize.send_messages:send_initialized_notification": "C02, C03",
    "chuk_mcp.protocol.messages.json_rpc_message:JSONRPCMessage.create_error_response": "C02 legacy.create_error_response",
    "chuk_mcp.protocol.messages.json_rpc_message:JSONRPCMessage.create_notification": "C02 legacy.create_notification",
    "chuk_mcp.protocol.messages.json_rpc_message:JSONRPCMessage.create_request": "C02 legacy.create_request",
    "chuk_mcp.protocol.messages.json_rpc_message:JSONRPCMessage.create_response": "C02 legacy.create_response",
    "chuk_mcp.protocol.messages.json_rpc_message:JSONRPCMessage.to_specific_type": "C02 (parse path of every case)",
    "chuk_mcp.protocol.messages.json_rpc_message:create_error_response": "C02",
    "chuk_mcp.protocol.messages.json_rpc_message:create_notification": "C02",
    "chuk_mcp.protocol.messages.json_rpc_message:create_request": "C02",
    "chuk_mcp.protocol.messages.json_rpc_message:create_response": "C02",
    "chuk_mcp.protocol.messages.json_rpc_message:parse_message": "C02 (every case), C09",
    "chuk_mcp.protocol.messages.notifications:send_cancelled_notification": "C02, C14",
    "chuk_mcp.protocol.messages.notifications:send_progress_notification": "C02",
    "chuk_mcp.protocol.messages.notifications:send_roots_list_changed_notification": "C02",
    "chuk_mcp.protocol.messages.roots.send_messages:handle_roots_list_request": "C02",
    "chuk_mcp.protocol.messages.roots.send_messages:send_roots_list_changed_notification": "C02",
    "chuk_mcp.protocol.messages.send_message:send_message": "C02, C01",
    "chuk_mcp.protocol.types.elicitation:ElicitationClient.handle_elicitation_request": "C02, C10",
    "chuk_mcp.protocol.types.elicitation:ElicitationHandler.request_user_input": "C10 (via)",
    "chuk_mcp.server.protocol_handler:ProtocolHandler._handle_initialize": "C08, C04",
    "chuk_mcp.server.protocol_handler:ProtocolHandler._handle_ping": "C08",
    "chuk_mcp.server.protocol_handler:ProtocolHandler.create_error_response": "C08",
    "chuk_mcp.server.protocol_handler:ProtocolHandler.create_response": "C08",
    "chuk_mcp.server.protocol_handler:ProtocolHandler.handle_message": "C08",
    "chuk_mcp.server.server:MCPServer._handle_resources_list": "C08",
    "chuk_mcp.server.server:MCPServer._handle_resources_read": "C08",
    "chuk_mcp.server.server:MCPServer._handle_tools_call": "C08",
    "chuk_mcp.server.server:MCPServer._handle_tools_list": "C08",
    "chuk_mcp.transports.http.http_client:detect_transport_type": "probe request of a convenience function; not driven",
    "chuk_mcp.transports.http.transport:StreamableHTTPTransport._ensure_terminal": "C11 (synthesised terminals re-validated as messages)",
    "chuk_mcp.transports.http.transport:StreamableHTTPTransport._process_sse_response": "C11",
    "chuk_mcp.transports.http.transport:StreamableHTTPTransport._send_message_internal": "C02 http_post, C11",
    "chuk_mcp.transports.sse.transport:SSETransport._process_sse_stream": "C12",
    "chuk_mcp.transports.sse.transport:SSETransport._send_message_via_http": "C02 sse_post, C12",
}
HELPER_EMITTERS = {"send_message", "send_tools_call", "send_cancelled_notification", "send_progress_notification"}
PAYLOADS = [None, {}, {"a": 1}, {"nil": None}, {"l": [None, 1, {"x": None}]}, {"deep": {"d": {"e": [None]}}, "big": 2**63 + 1, "f": 1.5, "neg0": -0.0},
            {"s": "line\nbreak \r  \U0001F600 \x00", "": "empty key", "ключ": "é"}, {"_meta": {"progressToken": "p"}, "cursor": "c"}, {"e": [], "o": {}},
            {"huge": 2**64, "huger": 10**30, "negHuge": -(2**63) - 1, "l": [2**64 + 1, {"d": -(10**25)}]},
            {"sep": "ls\u2028 ps\u2029 nel\u0085 del\x7f c1\x9f vt\x0b ff\x0c", "k\u2028\u0085": ["\u2029"]}]
IDVALS = [0, 1, -1, 2**63, 2**64 - 1, "", "abc", "123", "007", "uuid-1234"]


def emit_recs(cases, out, fb, cov):
    recs = []
    for c, o in zip(cases, out):
        want = EMITTERS[c["emitter"]]
        if not o["built"]:
            cov.setdefault("not_built_examples", [])
            if len(cov["not_built_examples"]) < 6:
                cov["not_built_examples"].append([c["emitter"], "fallback" if fb else "pydantic", o.get("exc"), str(untag(c["id"]))[:30]])
            recs.append({"emitter": c["emitter"], "want": want, "backend": "fallback" if fb else "pydantic", "form": "none", "env": {"obj": False}, "penv": {"obj": False}, "idEq": False, "sameTree": False, "built": False, "src": c})
            continue
        idv = untag(c["id"])
        for form, f in o["forms"].items():
            d = untag(f["tree"])
            pd = untag(f["parsed"]["tree"]) if f["parsed"]["env"].get("obj") else None
            want_id = want != "notification"
            if c["emitter"] == "send_tools_call" or (c["emitter"] == "send_message" and not idv):
                # the helper generates the id: any non-empty string, the same before and after parsing
                want_id = False
                gen_ok = isinstance(d, dict) and isinstance(d.get("id"), str) and d["id"] != "" and isinstance(pd, dict) and pd.get("id") == d["id"]
            else:
                gen_ok = True
            id_eq = gen_ok and (not want_id) or (isinstance(pd, dict) and "id" in pd and pd["id"] == idv and type(pd["id"]) is type(idv) and isinstance(d, dict) and d.get("id") == idv and type(d.get("id")) is type(idv))
            pl = untag(c["payload"])
            if c["emitter"] == "create_request_token":
                pl = dict(pl or {})
                pl["_meta"] = dict(pl.get("_meta") or {}, progressToken="tok-1")
            elif c["emitter"] == "send_tools_call":
                pl = {"name": "tool-x", "arguments": pl or {}}
            elif c["emitter"] == "send_cancelled_notification":
                pl = {"requestId": idv, "reason": "why"}
            elif c["emitter"] == "send_progress_notification":
                pl = {"progressToken": idv, "progress": 0.5, "total": 1.0, "message": "half"}
            elif c["emitter"].startswith("batch.item_error") or c["emitter"] in ("handle_elicitation_request:fails", "batch.rejection"):
                pl = None
            elif c["emitter"] in ("send_initialized_notification", "send_roots_list_changed.notifications", "send_roots_list_changed.roots"):
                pl = {}
            elif c["emitter"] == "handle_roots_list_request":
                pl = {"roots": [{"uri": "file:///tmp/verif", "name": "r\u2028"}]}
            elif c["emitter"] == "handle_elicitation_request":
                pl = {"data": pl if pl is not None else {}, "cancelled": False}
            if want == "result":
                got_pl = d.get("result") if isinstance(d, dict) else None
                if pl is None or (pl == {} and c["emitter"].startswith(("create", "legacy"))):
                    pl = {}
            elif want == "error":
                got_pl = (d.get("error") or {}).get("data") if isinstance(d, dict) else None
            else:
                got_pl = d.get("params") if isinstance(d, dict) else None
            payload_eq = tag(got_pl) == tag(pl) or (pl in (None, {}) and got_pl in (None, {}))
            if c["emitter"] == "batch.rejection":
                # the rejection explains itself in error.data; its wording is free
                payload_eq = isinstance(got_pl, dict) and got_pl.get("batching_supported") is False
            recs.append({"emitter": c["emitter"], "want": want, "backend": "fallback" if fb else "pydantic", "form": form, "env": f["env"], "penv": f["parsed"]["env"],
                         "idEq": bool(id_eq), "sameTree": f["parsed"]["tree"] == f["tree"] and f["parsed"].get("unifiedSame", True), "payloadEq": bool(payload_eq), "built": True, "pcls": f["parsed"]["cls"], "src": c})
    return recs


def check_c02(ctx):
    quick = ctx.tier == "quick"
    ctx.cov["rule"] = ("cases = (emitter, id, payload, back end, serialised form): the 13 message constructors (typed classes, create_* helpers, legacy class methods) x 10 ids (0, negative, 2^63, 2^64-1, empty/digit/text strings) "
                       "x 11 payload shapes (incl. integers beyond 64 bits) (absent, empty, nested nulls, large ints, floats, control/line-separator/astral characters in values and keys, non-ASCII keys, _meta) x {model_dump(exclude_none), model_dump_json}, each parsed back with parse_message; "
                       "plus the emitters exercised by the other checks (typed request helpers in C01/C07, server handler in C08, transports' synthesised messages in C11/C12); distinct_nontrivial = distinct cases")
    ctx.assumptions += ["result payload null is replaced by {} by the create_* helpers; a typed JSONRPCResponse built directly with result=None is outside 'messages the library constructs'",
                        "id value and JSON type, and payload equality, are compared by the harness as tagged trees"]
    r = tlc.run_tlc("Envelope", "mc/Envelope.cfg", work=os.path.join(ctx.work, "mc"), timeout=300, coverage=True)
    ctx.add_model_run("mc/Envelope.cfg", r)
    if r.invariant_violated:
        print("MODEL-STALE: Envelope violates %s" % r.invariant_violated)
    rng = random.Random(ctx.seed + 2)
    cases = []
    for em in EMITTERS:
        for idv in IDVALS:
            for pl in PAYLOADS:
                if EMITTERS[em] == "result" and pl is None and not em.startswith(("create", "legacy")):
                    continue
                if (em.startswith("batch.") or em in OWN_PAYLOAD) and pl is not PAYLOADS[0]:
                    continue          # these build their own payload: one case per id
                cases.append({"emitter": em, "id": tag(idv), "payload": tag(pl)})
    for _ in range(100 if quick else 3000):
        pl = {"k%d" % i: rng.choice([None, 1, "s\n", [None], {"n": None}, 2**rng.randrange(0, 64)]) for i in range(rng.randrange(0, 5))}
        cases.append({"emitter": rng.choice(list(EMITTERS)), "id": tag(rng.choice(IDVALS + [rng.randrange(-2**63, 2**64)])), "payload": tag(pl)})
    recs = []
    for fb in (False, True):
        wout = worker(fb, {"op": "emit", "cases": cases})
        out = wout["results"]
        unknown = sorted(set(wout.get("emit_sites", [])) - set(EMITTER_SITES))
        ctx.cov["emitter_sites"] = len(wout.get("emit_sites", []))
        ctx.cov["emitter_sites_without_driver"] = unknown
        if unknown and not fb:
            ctx.note("functions that build JSON-RPC messages and are not in the emitter table of harness/props/models.py (no driver yet): %s" % ", ".join(unknown))
        recs += emit_recs(cases, out, fb, ctx.cov)
    slim = [{k: v for k, v in x.items() if k not in ("built", "pcls", "src")} for x in recs if x["built"]]
    res = validate.validate("EnvelopeTrace", slim, {}, work=os.path.join(ctx.work, "val"), chunk=3000)
    if res["rejected"]:
        raise Machinery("envelope cases not consumed")
    built = [x for x in recs if x["built"]]
    ctx.cov["states"] += res["states"]
    ctx.cov["transitions"] += res["transitions"]
    ctx.cov["traces_validated_against_impl"] += len(built)
    ctx.cov["evaluations"] += len(recs)
    ctx.cov["not_built"] = sum(1 for x in recs if not x["built"])
    ctx.cov["distinct_nontrivial"] = len({json.dumps(x, sort_keys=True) for x in built})
    ctx.cov["samples"] = [built[0], built[len(built) // 2]]
    for i, cls in sorted(res["failed"].items()):
        x = built[i]
        for c in cls:
            if c in EMITTERS:
                continue
            ctx.report("clause=%s emitter=%s form=%s backend=%s" % (c, x["emitter"], x["form"], x["backend"]), json.dumps({k: v for k, v in x.items() if k != "src"})[:400],
                       {"kind": "envelope_case", "case": {k: v for k, v in x.items() if k != "src"}, "src": x["src"], "clause": c})
