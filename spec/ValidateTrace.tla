---------------------------- MODULE ValidateTrace ----------------------------
(* Observed outcomes of the two real validation back ends (two worker processes: Pydantic v2 *)
(* and MCP_FORCE_FALLBACK=1) on generated spec-valid wire objects of every model class, on    *)
(* JSON-RPC envelopes with every id shape, on content unions, on the documented invariants    *)
(* and on the library's own model-to-wire code paths.  Case kinds:                            *)
(*  "model"   [cls, okP, okF, typedEq, dumpEq, losslessP, losslessF]                           *)
(*  "id"      [ty, v [t, v], obsP, obsF]     observed id after validate + dump ([t, v] or reject)*)
(*  "content" [ty, type, obsP, obsF]         observed model variant of the content member      *)
(*  "hook"    [inv, rejP, rejF]              is the invalid input of the invariant rejected?   *)
(*  "via"     [helper, backend, bad, missing] attribute names leaked / wire names missing      *)
EXTENDS Validate, TraceBatch
VARIABLES tid
Case == Traces[tid]
K == Case.kind
Val(x) == [t |-> x[1], v |-> x[2]]
TyOf(n) == CASE n = "RequestId" -> RequestId [] n = "ProgressToken" -> ProgressToken [] n = "ContentUnion" -> ContentUnion [] OTHER -> ContentUnion2
VariantName(cls) == CASE cls = "TextContent" -> "text" [] cls = "ImageContent" -> "image" [] cls = "AudioContent" -> "audio" [] cls = "EmbeddedResource" -> "resource" [] OTHER -> cls

Clauses ==
  CASE K = "model" -> <<
        <<"BothAccept", Case.okP /\ Case.okF>>,
        <<"SameVariant", Case.okP /\ Case.okF => Case.typedEq>>,
        <<"SameDump", Case.okP /\ Case.okF => Case.dumpEq>>,
        <<"LosslessPydantic", Case.okP => Case.losslessP>>,
        <<"LosslessFallback", Case.okF => Case.losslessF>> >>
    [] K = "id" -> <<
        <<"IdKeepsType", Case.obsP = Case.v /\ Case.obsF = Case.v>>,
        <<"Model", /\ Val(Case.obsP) = Pyd(TyOf(Case.ty), Val(Case.v)).val
                   /\ Val(Case.obsF) = Fb(TyOf(Case.ty), Val(Case.v)).val>> >>
    [] K = "content" -> <<
        <<"ContentKeepsVariant", VariantName(Case.obsP) = Case.type /\ VariantName(Case.obsF) = Case.type>>,
        <<"Model", /\ VariantName(Case.obsP) = Pyd(ContentUnion, C(Case.type)).variant
                   /\ VariantName(Case.obsF) = Fb(ContentUnion, C(Case.type)).variant>> >>
    [] K = "hook" -> << <<"InvariantsBothOrNeither", Case.rejP = Case.rejF>> >>
    [] K = "via" -> << <<"WireNames", Case.bad = <<>> /\ Case.missing = <<>> >> >>

TInit == tid \in 1..NT /\ ty = RequestId /\ val = I("0")
TNext == UNCHANGED <<vars, tid>>
TSpec == TInit /\ [][TNext]_<<vars, tid>>
Judge == JudgeAll(tid, Clauses, K) /\ Accept(tid)
=============================================================================
