------------------------ MODULE SseTransportStrict ------------------------
(* Step-by-step validation of recorded sse_client runs against SseTransport: every logged     *)
(* environment event (Announce, SendRequest, Event, PostReply, ServerMsg, Exit) and the       *)
(* logged Enter outcome must be the corresponding action of the model at the logged model     *)
(* time; the model's own steps (Tick, EstablishFails, Deliver, WaitTimeout, a dropped late    *)
(* answer) are silent.  At the End event the model's read stream must be the observed one.    *)
(* A trace that cannot be followed means the code left the implementation model: that is      *)
(* reported as drift (the statement's clauses are judged by SseTransportTrace).               *)
EXTENDS SseTransport, TraceBatch

VARIABLES tid, l
tvars == <<vars, tid, l>>
Tr == Traces[tid]
Evs == Tr.ev
Ev == Evs[l]
More == l <= Len(Evs)
Is(n) == More /\ Ev.e = n
Consume == l' = l + 1 /\ tid' = tid
Hold == UNCHANGED <<tid, l>>

TInit ==
  /\ tid \in 1..NT /\ l = 1
  /\ now = 0 /\ estab = Traces[tid].estab /\ phase = "connecting" /\ url = FALSE
  /\ entered = "no" /\ enteredAt = 0
  /\ req = "none" /\ reply = "none" /\ future = "none" /\ postedAt = 0
  /\ readStream = <<>> /\ srvSent = 0 /\ exited = FALSE /\ lateSeen = FALSE

ObsItem(x) == IF x[1] = "srv" THEN [id |-> "srv", src |-> "srv", n |-> x[3]] ELSE [id |-> x[1], src |-> x[2], n |-> 0]
ObsRead == [i \in DOMAIN Ev.read |-> ObsItem(Ev.read[i])]

TNext ==
  \/ Is("Announce") /\ now = Ev.t /\ Announce /\ Consume
  \/ Is("Enter") /\ now = Ev.t /\ Enter /\ entered' = Ev.r /\ Consume
  \/ Is("SendRequest") /\ now = Ev.t /\ SendRequest /\ Consume
  \/ Is("Event") /\ now = Ev.t /\ (Event \/ EventDropped) /\ Consume
  \/ Is("PostReply") /\ now = Ev.t /\ PostReply(Ev.r) /\ Consume
  \/ Is("ServerMsg") /\ now = Ev.t /\ ServerMsg /\ Consume
  \/ Is("Exit") /\ now = Ev.t /\ Exit /\ Consume
  \/ Is("End") /\ readStream = ObsRead /\ UNCHANGED vars /\ Consume
  \* silent steps of the model, never past the next logged time
  \/ More /\ Ev.e # "End" /\ now < Ev.t /\ Tick /\ Hold
  \/ More /\ EstablishFails /\ Hold
  \/ More /\ Deliver /\ Hold
  \/ More /\ WaitTimeout /\ Hold
TSpec == TInit /\ [][TNext]_tvars
Judge == Reached(tid, l) /\ (l = Len(Evs) + 1 => Accept(tid))
=============================================================================
