"""C07: ErrorClass specification + the ErrNeverNormal clause of RequestWait."""
import os
import random

from harness import tlc, validate, par, gen
from harness.common import Machinery
from harness.drivers import errors_drv


def _run(chunk):
    return errors_drv.run_cases(chunk)


def check_c07(ctx):
    quick = ctx.tier == "quick"
    ctx.cov["rule"] = ("cases = (helper, error code, error shape): every integer code of -33100..-31900 and -200..200 plus seeded 64-bit codes, "
                       "7 error shapes, every discovered request helper (quick: each code with 2 seeded helpers x 1 seeded shape plus every helper x shape on 40 codes); "
                       "plus is_retryable_error on every code; distinct_nontrivial = distinct (helper, code class, shape) triples observed")
    ctx.assumptions += [
        "the documented permanent/retryable code sets are the ones of the pinned errors.py, written out in spec/ErrorClass.tla",
        "64-bit codes reach TLC as the class 'huge' (TLC integers are 32-bit)",
        "send_initialize* convert a -32602 'protocol version' error into VersionMismatchError by design; for them only 'never a normal return' and the code are judged",
    ]
    sets = errors_drv.extract_sets()
    defs = {"Gen" + k: set(v) for k, v in sets.items()}
    gen.write_module("MC_ErrorClass", ["ErrorClass"], defs)
    tmod = gen.write_module("MC_ErrorClassTrace", ["ErrorClassTrace"], defs)
    # MC on the extracted sets
    r = tlc.run_tlc(os.path.join(gen.GEN, "MC_ErrorClass.tla"), "mc/ErrorClass.cfg", work=os.path.join(ctx.work, "mc"), timeout=600)
    ctx.add_model_run("mc/ErrorClass.cfg (sets extracted from the tree)", r)
    if r.invariant_violated:
        # the sets ARE the code: a violated set invariant is an observation of the real tree
        for inv in r.invariant_violated:
            ctx.report("clause=%s" % inv, "error-code sets extracted from errors.py violate %s: %s" % (inv, {k: sets[k] for k in ("NonRetryable", "Retryable", "Named", "BoolHelpers")}),
                       {"kind": "errorclass_sets", "sets": sets, "clause": inv})
    # cases
    rng = random.Random(ctx.seed + 7)
    codes = list(range(-33100, -31899)) + list(range(-200, 201))
    huge = [2**31, -2**31 - 1, 2**63 - 1, -2**63, 2**64 - 1] + [rng.randrange(-2**63, 2**64) for _ in range(20 if quick else 400)]
    hs = sets["Helpers"]
    cases = []
    if quick:
        for c in codes + huge:
            for h in rng.sample(hs, 4):
                cases.append((h, c, rng.choice(errors_drv.SHAPES)))
        special = sorted(set(sets["NonRetryable"]) | set(sets["Retryable"]) | set(sets["Named"])) + [0, 1, -1, -32099, -32100, -31999, 2**31, -2**63]
        for c in special:
            for h in hs:
                cases.append((h, c, rng.choice(errors_drv.SHAPES)))
        for h in hs:
            for sh in errors_drv.SHAPES:
                cases.append((h, rng.choice(special), sh))
    else:
        for c in codes + huge:
            for h in hs:
                cases.append((h, c, rng.choice(errors_drv.SHAPES)))
        for h in hs:
            for sh in errors_drv.SHAPES:
                for c in rng.sample(codes, 30):
                    cases.append((h, c, sh))
    chunks = [cases[i:i + 400] for i in range(0, len(cases), 400)]
    recs = [r for ch in par.pmap(_run, chunks) for r in ch]
    recs += errors_drv.run_fn_cases(codes + huge)
    consts = {k: ("<-", "Gen" + k) for k in sets}
    res = validate.validate(tmod, recs, consts, work=os.path.join(ctx.work, "val"), chunk=5000)
    ctx.cov["states"] += res["states"]
    ctx.cov["transitions"] += res["transitions"]
    ctx.cov["traces_validated_against_impl"] += len(recs)
    ctx.cov["evaluations"] += len(recs)
    if res["rejected"]:
        raise Machinery("%d cases not consumed by ErrorClassTrace" % len(res["rejected"]))
    ctx.cov["distinct_nontrivial"] = len({(r["helper"], r["codestr"], r["shape"]) for r in recs})
    ctx.cov["samples"] = [recs[0], recs[len(recs) // 2], recs[-1]]
    for i, cl in sorted(res["failed"].items()):
        r = recs[i]
        for c in cl:
            if c == r["helper"]:
                continue
            sig = "clause=%s helper=%s" % (c, r["helper"])
            ctx.report(sig, "code %s shape %s observed %s" % (r["codestr"], r["shape"], r["obs"]),
                       {"kind": "errorclass_case", "case": [r["helper"], int(r["codestr"]), r["shape"]], "fn": r["fn"], "clause": c})
    # the RequestWait side of C07: an error response never completes a request normally
    from harness.props import reqwait
    reqwait.model_check(ctx, "mc/RequestWait_c07.cfg")
    rs = reqwait.random_scheds(ctx, 800 if quick else 10000, ncallers=1, max_arr=6, cancel=False, progress=False)
    reqwait.replay_and_validate(ctx, "C07", rs, "rw")
