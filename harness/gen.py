"""Generated TLA+ modules (constants extracted from /repo's current tree) live in spec/gen/."""
import os
from harness import tlc

GEN = os.path.join(tlc.SPEC, "gen")


def tla_value(v):
    if isinstance(v, bool):
        return "TRUE" if v else "FALSE"
    if isinstance(v, int):
        return str(v) if v >= 0 else "(%d)" % v
    if isinstance(v, str):
        return '"' + v.replace("\\", "\\\\").replace('"', '\\"') + '"'
    if isinstance(v, (list, tuple)):
        return "<<" + ", ".join(tla_value(x) for x in v) + ">>"
    if isinstance(v, (set, frozenset)):
        return "{" + ", ".join(tla_value(x) for x in sorted(v, key=lambda x: (str(type(x)), x))) + "}"
    if isinstance(v, dict):
        if not v:
            return "<<>>"
        return "[" + ", ".join("%s |-> %s" % (k, tla_value(x)) for k, x in v.items()) + "]"
    raise TypeError(repr(v))


def write_module(name, extends, defs):
    """spec/gen/<name>.tla : EXTENDS <extends>, one definition per item of defs."""
    os.makedirs(GEN, exist_ok=True)
    lines = ["---- MODULE %s ----" % name, "\\* generated from the tree on every run - do not edit", "EXTENDS " + ", ".join(extends), ""]
    for k, v in defs.items():
        lines.append("%s == %s" % (k, tla_value(v)))
    lines.append("====")
    path = os.path.join(GEN, name + ".tla")
    with open(path, "w") as f:
        f.write("\n".join(lines) + "\n")
    return path
