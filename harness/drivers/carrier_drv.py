"""C15 driver: one conversation over the four carriers (real StdioClient behind the process seam,
real http_client with JSON bodies and with SSE bodies, real sse_client), scripted servers, real
request helpers on the client side, virtual clock."""
import asyncio
import json
import logging
import math

import anyio
import httpx

from harness import vloop
from harness.drivers import httpx_seam, stdio_drv
from harness.drivers.stdio_drv import idle
from harness.drivers.sse_drv import FedStream
from harness.workers.codec_worker import tag

logging.disable(logging.CRITICAL)

CARRIERS = ["stdio", "httpJson", "httpSse", "sse"]
TEXT = "naïve  \u0085 \U0001F600 \"q\" \\ \n\ttab"


def server_messages(conv, r, rid):
    """the messages the server sends for request r (1-based) with id rid"""
    c = conv[r - 1]
    out = []
    for j in range(1, c["nn"] + 1):
        out.append({"jsonrpc": "2.0", "method": "notifications/message", "params": {"level": "info", "data": "n%d.%d %s" % (r, j, TEXT), "req": r, "n": j}})
    cls = c["resp"]
    if cls == "objResult":
        res = {"tools": [{"name": "t%d" % r, "description": TEXT, "inputSchema": {"type": "object", "properties": {"a": {"type": "string"}}}}], "req": r}
        out.append({"jsonrpc": "2.0", "id": rid, "result": res})
    elif cls == "unicodeNulls":
        out.append({"jsonrpc": "2.0", "id": rid, "result": {"text": TEXT, "nil": None, "nested": {"l": [None, 1, {"x": None}]}, "big": 2**53 + 1, "req": r}})
    elif cls == "listResult":
        out.append({"jsonrpc": "2.0", "id": rid, "result": [r, TEXT, None, {"k": [1]}]})
    elif cls == "strResult":
        out.append({"jsonrpc": "2.0", "id": rid, "result": "r%d %s" % (r, TEXT)})
    elif cls == "retryableError":
        out.append({"jsonrpc": "2.0", "id": rid, "error": {"code": -32603, "message": "internal %d %s" % (r, TEXT), "data": {"req": r}}})
    elif cls == "permanentError":
        out.append({"jsonrpc": "2.0", "id": rid, "error": {"code": -32601, "message": "no such method %d" % r, "data": {"req": r}}})
    else:
        raise ValueError(cls)
    return out


class Tee:
    """read-stream proxy: logs every message the client is handed"""

    def __init__(self, inner, log):
        self.inner = inner
        self.log = log

    async def receive(self):
        m = await self.inner.receive()
        self.log.append(m)
        return m

    def receive_nowait(self):
        m = self.inner.receive_nowait()
        self.log.append(m)
        return m


async def client_side(conv, rs, ws, sent_log):
    """issue the requests with the real helpers; returns (read log, outcomes)"""
    from chuk_mcp.protocol.messages.send_message import send_message
    from chuk_mcp.protocol.messages.tools.send_messages import send_tools_list
    from chuk_mcp.protocol.types.errors import RetryableError, NonRetryableError

    log = []
    tee = Tee(rs, log)
    outcomes = []
    for r, c in enumerate(conv, 1):
        try:
            if c["resp"] == "objResult":
                res = await send_tools_list(tee, ws, timeout=5.0)
                val = res.model_dump(exclude_none=True, by_alias=True) if hasattr(res, "model_dump") else res
                exp = sent_log[r][-1]["result"]
                ok = val.get("tools", [{}])[0].get("name") == exp["tools"][0]["name"] and val["tools"][0].get("description") == TEXT and val["tools"][0].get("inputSchema") == exp["tools"][0]["inputSchema"]
                outcomes.append(["result", bool(ok)])
            else:
                res = await send_message(tee, ws, "custom/echo", {"req": r}, timeout=5.0)
                exp = sent_log[r][-1].get("result")
                outcomes.append(["result", tag(res) == tag(exp)])
        except RetryableError as e:
            exp = sent_log[r][-1].get("error", {})
            outcomes.append(["RetryableError", e.code == exp.get("code") and exp.get("message", "\0") in str(e)])
        except NonRetryableError as e:
            exp = sent_log[r][-1].get("error", {})
            outcomes.append(["NonRetryableError", e.code == exp.get("code") and exp.get("message", "\0") in str(e)])
        except TimeoutError:
            outcomes.append(["Timeout", False])
        except Exception as e:
            outcomes.append(["Exception:" + type(e).__name__, False])
        # anything that arrives after the response and before the next request
        await idle(2)
    return log, outcomes


def normalise(log, sent_log):
    """[k, req, n, ok] per message handed to the client"""
    flat = []
    for r, msgs in sent_log.items():
        for j, m in enumerate(msgs, 1):
            flat.append((r, j if "method" in m else 0, m))
    out = []
    for m in log:
        d = m.model_dump(exclude_none=True) if hasattr(m, "model_dump") else m
        hit = None
        for r, n, s in flat:
            if tag(_strip_none_top(d)) == tag(_strip_none_top(s)):
                hit = (r, n, s)
                break
        if hit:
            r, n, s = hit
            k = "notif" if "method" in s else None
            out.append([k or _resp_class(s), r, n, True])
        else:
            # not equal to anything the server sent: find what it resembles
            rid = d.get("id") if isinstance(d, dict) else None
            cand = [x for x in flat if isinstance(d, dict) and (("method" in d and "method" in x[2] and (d.get("params") or {}).get("n") == x[1] and (d.get("params") or {}).get("req") == x[0]) or ("id" in d and x[2].get("id") == rid and "method" not in x[2]))]
            if cand:
                r, n, s = cand[0]
                out.append(["notif" if "method" in s else _resp_class(s), r, n, False])
            else:
                out.append(["unknown", 0, 0, False])
    return out


def _strip_none_top(d):
    return {k: v for k, v in d.items() if v is not None} if isinstance(d, dict) else d


def _resp_class(s):
    if "error" in s:
        return "retryableError" if s["error"]["code"] == -32603 else "permanentError"
    res = s.get("result")
    if isinstance(res, list):
        return "listResult"
    if isinstance(res, str):
        return "strResult"
    if isinstance(res, dict) and "tools" in res:
        return "objResult"
    return "unicodeNulls"


def run_conversations(cases):
    """cases: list of (carrier, conv).  Returns the traces."""
    out = []

    async def over_stdio(conv):
        from chuk_mcp.transports.stdio.stdio_client import StdioClient
        sent_log = {}
        with stdio_drv.seam() as procs:
            client = StdioClient(stdio_drv.params())
            async with client:
                proc = procs[0]
                state = {"r": 0, "seen": 0}

                async def server():
                    # answer every request line written to the child's stdin
                    while True:
                        await anyio.sleep(0.001)
                        data = bytes(proc.stdin.data)
                        lines = data.split(b"\n")[:-1]
                        while state["seen"] < len(lines):
                            req = json.loads(lines[state["seen"]].decode())
                            state["seen"] += 1
                            if "id" in req and "method" in req:
                                state["r"] += 1
                                msgs = server_messages(conv, state["r"], req["id"])
                                sent_log[state["r"]] = msgs
                                outl = [json.dumps(m, ensure_ascii=(state["r"] % 2 == 0)) for m in msgs]
                                mode = state["r"] % 3
                                if mode == 1:
                                    # the notifications and the response arrive in ONE read
                                    proc.stdout.feed(("\n".join(outl) + "\n").encode())
                                elif mode == 2 and len(outl) > 1:
                                    # ... or as one JSON array line (no version negotiated: batches are accepted)
                                    proc.stdout.feed(("[" + ",".join(outl) + "]\n").encode())
                                else:
                                    for ln in outl:
                                        proc.stdout.feed((ln + "\n").encode())

                async with anyio.create_task_group() as tg:
                    tg.start_soon(server)
                    rs, ws = client.get_streams()
                    log, outcomes = await client_side(conv, rs, ws, sent_log)
                    tg.cancel_scope.cancel()
        return log, outcomes, sent_log

    async def over_http(conv, sse):
        from chuk_mcp.transports.http.http_client import http_client
        from chuk_mcp.transports.http.parameters import StreamableHTTPParameters
        sent_log = {}
        state = {"r": 0}

        async def handler(request):
            req = json.loads(request.content.decode())
            if "id" not in req:
                return httpx.Response(202, content=b"")
            state["r"] += 1
            msgs = server_messages(conv, state["r"], req["id"])
            sent_log[state["r"]] = msgs
            texts = [json.dumps(m, ensure_ascii=False, separators=(",", ":")) for m in msgs]
            if sse:
                body = "".join("event: message\ndata: %s\n\n" % t for t in texts)
                return httpx.Response(200, headers={"content-type": "text/event-stream"}, content=body.encode())
            body = texts[0] if len(texts) == 1 else "[" + ",".join(texts) + "]"
            return httpx.Response(200, headers={"content-type": "application/json"}, content=body.encode())

        with httpx_seam.seam(handler):
            async with http_client(StreamableHTTPParameters(url="http://verif.invalid/mcp", timeout=5.0)) as (rs, ws):
                log, outcomes = await client_side(conv, rs, ws, sent_log)
        return log, outcomes, sent_log

    async def over_sse(conv):
        from chuk_mcp.transports.sse.sse_client import sse_client
        from chuk_mcp.transports.sse.parameters import SSEParameters
        sent_log = {}
        state = {"r": 0}
        stream = FedStream()
        stream.feed(b"event: endpoint\ndata: /messages/?session_id=s1\n\n")

        async def handler(request):
            if request.method == "GET":
                return httpx.Response(200, headers={"content-type": "text/event-stream"}, stream=stream)
            req = json.loads(request.content.decode())
            if "id" in req:
                state["r"] += 1
                msgs = server_messages(conv, state["r"], req["id"])
                sent_log[state["r"]] = msgs
                for m in msgs:
                    data = ("event: message\ndata: %s\n\n" % json.dumps(m, ensure_ascii=False, separators=(",", ":"))).encode()
                    inside = [i for i in range(1, len(data)) if 0x80 <= data[i] <= 0xBF]
                    if inside and state["r"] % 3 != 0:
                        # the network delivers the event in two reads, the boundary inside a character
                        cut = inside[(state["r"] * 7) % len(inside)]
                        stream.feed(data[:cut])
                        stream.feed(data[cut:])
                    else:
                        stream.feed(data)
                if state["r"] % 2:
                    # a fast server: the answer is on the event stream before the 202 is back
                    await anyio.sleep(0.01)
            return httpx.Response(202, content=b"")

        with httpx_seam.seam(handler):
            async with sse_client(SSEParameters(url="http://verif.invalid", timeout=5.0)) as (rs, ws):
                log, outcomes = await client_side(conv, rs, ws, sent_log)
        return log, outcomes, sent_log

    async def one(carrier, conv):
        if carrier == "stdio":
            log, outcomes, sent = await over_stdio(conv)
        elif carrier == "httpJson":
            log, outcomes, sent = await over_http(conv, False)
        elif carrier == "httpSse":
            log, outcomes, sent = await over_http(conv, True)
        else:
            log, outcomes, sent = await over_sse(conv)
        return {"carrier": carrier, "conv": conv, "read": normalise(log, sent), "outcomes": outcomes}

    for carrier, conv in cases:
        box = []

        async def main(carrier=carrier, conv=conv, box=box):
            box.append(await one(carrier, conv))

        try:
            # backstop against a poll that never ends (a conversation needs a few hundred loop iterations)
            vloop.run(main, max_iter=200000)
            out.append(box[0])
        except vloop.Deadlock:
            out.append({"carrier": carrier, "conv": conv, "read": [["hung", 0, 0, False]], "outcomes": []})
    return out
