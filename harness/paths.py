"""Helpers for TLC-emitted histories (one per transition): keep the maximal ones."""
import json


def maximal(paths):
    """paths: list of lists of step records.  Drop every path that is a proper prefix of another."""
    keys = [tuple(json.dumps(s, sort_keys=True) for s in p) for p in paths]
    prefixes = set()
    for k in keys:
        for i in range(1, len(k)):
            prefixes.add(k[:i])
    out = []
    seen = set()
    for p, k in zip(paths, keys):
        if k in prefixes or k in seen:
            continue
        seen.add(k)
        out.append(p)
    return out
