------------------------- MODULE GenRequestWait -------------------------
(* Schedule generation from RequestWait: the same actions with a history variable that is *)
(* kept out of the VIEW.  Every transition into a state in which all callers are done     *)
(* prints its (shortest) history once; the driver replays the environment's part of it.   *)
EXTENDS MC_RequestWait, Json

VARIABLE hist

H(a, c) == hist' = Append(hist, [a |-> a, c |-> c, now |-> now])

GNext ==
  \/ \E c \in Callers :
        \/ Start(c) /\ H("Start", c)
        \/ EnterRecv(c) /\ UNCHANGED hist
        \/ Recv(c) /\ H("Recv", c)
        \/ PollTimeout(c) /\ H("PollTimeout", c)
        \/ Deadline(c) /\ H("Deadline", c)
        \/ Cancel(c) /\ H("Cancel", c)
  \/ \E k \in Kinds, i \in Ids :
        /\ ArriveKI(k, i)
        /\ hist' = Append(hist, [a |-> "Arrive", k |-> k, id |-> i, now |-> now])
  \/ Advance /\ UNCHANGED hist

GInit == Init /\ hist = <<>>
GSpec == GInit /\ [][GNext]_<<vars, hist>>

AllDone(s) == \A c \in Callers : s[c] = "done"
Emit == (AllDone(st') /\ ~AllDone(st)) => PrintT(<<"PATH", ToJson([cfg |-> cfg, h |-> hist'])>>)
=============================================================================
