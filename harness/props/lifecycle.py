"""C16: StdioLifecycle (protocol, model-checked) + end-state clauses on real child processes."""
import json
import os

from harness import tlc, validate, par
from harness.common import Machinery
from harness.drivers import lifecycle_drv as ld

MODEL_BEH = {"ignore_term": "ignoresTerm", "exit_at:0": "exitsEarly", "exit_at:1": "exitsEarly", "exit_at:2": "exitsEarly", "unstartable": "unstartable"}
SLACK = 25      # tenths of a second on top of the two grace periods


def _run(sc):
    return ld.run_scenario_isolated(dict(sc))


def to_trace(sc, evs):
    out = []
    for e in evs:
        e = dict(e)
        for k in ("t", "dt"):
            if k in e:
                e[k] = int(round(e[k] * 10))
        if e["e"] == "Pending" and e["kind"].startswith("error:"):
            e["kind"] = "error"
        e.pop("rc", None)
        e.pop("exc", None)
        out.append(e)
    return {"beh": MODEL_BEH.get(sc["beh"], "obeysTerm") if not sc["beh"].startswith("unstartable") else "unstartable", "path": sc["path"], "ev": out}


def reap_orphans():
    """children of scenarios that hung (and were killed by the watchdog) live in their own sessions:
    whatever is left of them must not outlive the check"""
    import signal
    n = 0
    for pid in os.listdir("/proc"):
        if not pid.isdigit():
            continue
        try:
            cmd = open("/proc/%s/cmdline" % pid, "rb").read().decode("utf-8", "replace")
            if ld.CHILD in cmd.replace("\0", " "):
                os.kill(int(pid), signal.SIGKILL)
                n += 1
        except (OSError, ValueError):
            continue
    return n


def check_c16(ctx):
    quick = ctx.tier == "quick"
    ctx.cov["rule"] = ("cases = (child behaviour, exit path, moment): 11 behaviours (well-behaved, exits at step 0/1/2, ignores SIGTERM after signalling readiness, never reads stdin, floods stdout, "
                       "closes stdout, closes stdin, slow start, unstartable command) x 4 exit paths (normal, exception in body, outer cancellation, timeout around the context) x 3 moments "
                       "(before first message, request in flight, after response), plus large writes queued at exit (3 behaviours x 4 paths) and the timeout around the context firing 0..80 ms after the "
                       "context started to be entered (3 behaviours x 8 delays), each run against a real child process with the real clock; distinct_nontrivial = scenarios with a started child")
    ctx.assumptions += ["real time: the exit bound is the two one-second grace periods plus 2.5 s of scheduling slack; a scenario that fails only the duration clause is re-run alone before it is reported",
                        "process state is read from /proc/<pid>/stat and the fd table from /proc/self/fd shortly after the context exits"]
    for cfg, expect in (("mc/StdioLifecycle.cfg", set()), ("mc/StdioLifecycle_dev.cfg", {"NoChildLeftBehind"})):
        r = tlc.run_tlc("StdioLifecycle", cfg, work=os.path.join(ctx.work, "mc"), timeout=300, coverage=True)
        ctx.add_model_run(cfg, r)
        if set(r.invariant_violated) != expect:
            print("MODEL-STALE: %s violated %s, expected %s" % (cfg, r.invariant_violated, sorted(expect)))
    scen = [{"beh": b, "path": p, "moment": m} for b in ld.BEHAVIOURS for p in ld.EXIT_PATHS for m in ld.MOMENTS]
    scen = [s for s in scen if not (s["beh"].startswith("unstartable") and (s["path"] != "normal" or s["moment"] != "beforeFirstMessage"))]
    scen += ld.EXTRA_SCENARIOS
    reps = 1 if quick else 3
    scen = scen * reps
    res_evs = par.pmap(_run, scen, jobs=16, chunksize=1)
    ctx.cov["orphans_reaped_after_run"] = reap_orphans()
    errs = [e for e in res_evs if isinstance(e, dict)]
    if errs:
        raise Machinery("lifecycle driver failed: %s" % errs[0]["error"])
    traces = [to_trace(s, e) for s, e in zip(scen, res_evs)]
    consts = {"ExitAbortedByCancellation": False, "Slack": SLACK}
    res = validate.validate("StdioLifecycleTrace", traces, consts, work=os.path.join(ctx.work, "val"), chunk=200)
    if res["rejected"]:
        i = sorted(res["rejected"])[0]
        raise Machinery("lifecycle trace not consumed: %s" % json.dumps(traces[i])[:500])
    ctx.cov["states"] += res["states"]
    ctx.cov["transitions"] += res["transitions"]
    ctx.cov["traces_validated_against_impl"] += len(traces)
    ctx.cov["evaluations"] += len(traces)
    ctx.cov["distinct_nontrivial"] = len({json.dumps(s, sort_keys=True) for s in scen if not s["beh"].startswith("unstartable")})
    ctx.cov["samples"] = [{"scenario": scen[0], "trace": traces[0]["ev"]}, {"scenario": scen[50 % len(scen)], "trace": traces[50 % len(scen)]["ev"]}]
    for i, cls in sorted(res["failed"].items()):
        cls = [c for c in cls if c not in ("obeysTerm", "ignoresTerm", "exitsEarly", "unstartable")]
        if cls == ["BoundedExit"]:
            # timing only: re-run alone before reporting
            again = to_trace(scen[i], _run(scen[i]))
            r2 = validate.validate("StdioLifecycleTrace", [again], consts, work=os.path.join(ctx.work, "val2"), jobs=1)
            if "BoundedExit" not in r2["failed"].get(0, []):
                ctx.note("scenario %s exceeded the duration bound once under load, not when re-run alone" % scen[i])
                continue
        for c in cls:
            ctx.report("clause=%s path=%s" % (c, scen[i]["path"]), "scenario %s trace %s" % (scen[i], json.dumps(traces[i]["ev"])[:400]),
                       {"kind": "lifecycle", "scenario": scen[i], "clause": c})
