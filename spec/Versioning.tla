----------------------------- MODULE Versioning -----------------------------
(***************************************************************************)
(* Protocol-version ordering and the batching decision (C13).              *)
(*   chuk_mcp/protocol/features/batching.py   supports_batching            *)
(*   chuk_mcp/protocol/types/versioning.py    ProtocolVersion.compare      *)
(*                                                                         *)
(* A well-formed version dddd-dd-dd is a triple <<y, m, d>> with           *)
(* m, d \in 0..99 (the format, not the calendar).  Lt is the numeric       *)
(* lexicographic order; StrLt is the order ProtocolVersion.compare uses    *)
(* (string comparison of the zero-padded text = lexicographic order of the *)
(* 8 digits); CodeSupports transcribes the branch structure of             *)
(* supports_batching.                                                      *)
(***************************************************************************)
EXTENDS Naturals, Sequences, TLC

CONSTANTS YearLo, YearHi

Cutoff == <<2025, 6, 18>>
Grid == (YearLo..YearHi) \X (0..99) \X (0..99)

Lt(a, b) == \/ a[1] < b[1]
            \/ a[1] = b[1] /\ a[2] < b[2]
            \/ a[1] = b[1] /\ a[2] = b[2] /\ a[3] < b[3]

Digits(v) == << v[1] \div 1000, (v[1] \div 100) % 10, (v[1] \div 10) % 10, v[1] % 10,
                v[2] \div 10, v[2] % 10, v[3] \div 10, v[3] % 10 >>
RECURSIVE SeqLt(_, _)
SeqLt(s, t) == IF s = <<>> \/ t = <<>> THEN FALSE
               ELSE IF Head(s) # Head(t) THEN Head(s) < Head(t)
               ELSE SeqLt(Tail(s), Tail(t))
StrLt(a, b) == SeqLt(Digits(a), Digits(b))

\* the contract: batches are accepted exactly for versions older than the cutoff
Supports(v) == Lt(v, Cutoff)
\* no version negotiated => batching
NoVersion == <<0, 0, 0>>
SupportsOpt(v) == v = NoVersion \/ Supports(v)

\* the code's decision procedure, branch by branch
CodeSupports(v) ==
  IF v[1] > 2025 THEN FALSE
  ELSE IF v[1] = 2025 /\ v[2] > 6 THEN FALSE
  ELSE IF v[1] = 2025 /\ v[2] = 6 /\ v[3] >= 18 THEN FALSE
  ELSE TRUE

\* successor in grid order (the total order Lt restricted to the grid)
Succ(v) == IF v[3] < 99 THEN <<v[1], v[2], v[3] + 1>>
           ELSE IF v[2] < 99 THEN <<v[1], v[2] + 1, 0>>
           ELSE <<v[1] + 1, 0, 0>>

VARIABLE v
Init == v \in Grid
Next == UNCHANGED v
Spec == Init /\ [][Next]_v

OrderAgrees == \A w \in {Cutoff, Succ(v)} : Lt(v, w) = StrLt(v, w) /\ Lt(w, v) = StrLt(w, v)
DecisionIsOrder == Supports(v) = StrLt(v, Cutoff)
CodeIsContract == CodeSupports(v) = Supports(v)
Monotone == Supports(Succ(v)) => Supports(v)
SuccIsNext == Lt(v, Succ(v))
=============================================================================
