"""ClientSession driver (growth): the real MCPClient over (a) the real StdioTransport behind the
process seam and (b) a recording in-memory Transport that several tasks may share, against a
scripted server, under the virtual clock.  A script is the environment's part of a ClientSession
behaviour: Enter / Exit / Begin(t, kind, op) with the answers the server will give."""
import contextvars
import json
import logging
import math

import anyio

from harness import vloop
from harness.drivers import stdio_drv

logging.disable(logging.CRITICAL)

OPS = {"list_tools": "tools/list", "call_tool": "tools/call"}
METHOD_TO_OP = {v: k for k, v in OPS.items()}
CUR = contextvars.ContextVar("verif_client_task", default="t1")


def answer_initialize(req, a):
    """the scripted server's reply to an initialize request (None = silence)"""
    rid = req["id"]
    if a == "silence":
        return None
    if a == "rpcError":
        return {"jsonrpc": "2.0", "id": rid, "error": {"code": -32603, "message": "boom"}}
    return {"jsonrpc": "2.0", "id": rid, "result": {"protocolVersion": a, "capabilities": {"tools": {}}, "serverInfo": {"name": "srv-" + a, "version": "1"}}}


def answer_op(req, ok):
    rid = req["id"]
    if not ok:
        return {"jsonrpc": "2.0", "id": rid, "error": {"code": -32001, "message": "nope"}}
    if req["method"] == "tools/list":
        return {"jsonrpc": "2.0", "id": rid, "result": {"tools": [{"name": "t", "inputSchema": {"type": "object"}}]}}
    return {"jsonrpc": "2.0", "id": rid, "result": {"content": [{"type": "text", "text": "ok"}]}}


def calls_of(path):
    """a TLC history (Enter / Exit / Begin / InitAnswer / OpAnswer) as a script of steps
    Enter | Exit | Call(t, kind, op, init, ok)"""
    out = []
    last = {}
    for h in path:
        if h["a"] in ("Enter", "Exit"):
            out.append({"a": h["a"]})
        elif h["a"] == "Begin":
            c = {"a": "Call", "t": h["t"], "kind": h["kind"], "op": h["op"], "init": None, "ok": True}
            last[h["t"]] = c
            out.append(c)
        elif h["a"] == "InitAnswer":
            last[h["t"]]["init"] = h["x"]
        elif h["a"] == "OpAnswer":
            last[h["t"]]["ok"] = bool(h["ok"])
    return out


def run_scripts(cases):
    """cases: list of (variant, script).  Returns the traces (lists of events)."""
    from chuk_mcp.client.client import MCPClient
    from chuk_mcp.transports.base import Transport, TransportParameters
    from chuk_mcp.transports.stdio import StdioTransport
    from chuk_mcp.protocol.types.errors import VersionMismatchError, RetryableError, NonRetryableError

    class MemTransport(Transport):
        def __init__(self, evs, current):
            super().__init__(TransportParameters.__new__(TransportParameters) if False else None)
            self.evs = evs
            self.current = current          # task -> the call it is in
            self.version = None
            self.open = False

        async def __aenter__(self):
            self.to_client, self.read = anyio.create_memory_object_stream(math.inf)
            self.open = True
            return self

        async def __aexit__(self, *a):
            self.open = False
            return False

        async def get_streams(self):
            if not self.open:
                raise RuntimeError("Transport not started - use as async context manager")
            return self.read, self

        def set_protocol_version(self, version):
            self.version = version

        async def send(self, msg):           # the write stream
            if not self.open:
                raise anyio.ClosedResourceError()
            d = msg.model_dump(exclude_none=True) if hasattr(msg, "model_dump") else msg
            serve(self.evs, self.current, CUR.get(), d, self.to_client.send_nowait)

    def serve(evs, current, t, d, reply):
        from chuk_mcp.protocol.messages.json_rpc_message import parse_message
        m = d.get("method")
        c = current.get(t) or {"init": "silence", "ok": True}
        if m == "initialize":
            evs.append({"e": "Wire", "t": t, "m": "initialize"})
            a = c["init"] if c["init"] is not None else "silence"
            evs.append({"e": "InitAnswer", "t": t, "a": a})
            r = answer_initialize(d, a)
            if r is not None:
                reply(parse_message(r))
        elif m == "notifications/initialized":
            evs.append({"e": "Wire", "t": t, "m": "initialized"})
        elif m in METHOD_TO_OP:
            evs.append({"e": "Wire", "t": t, "m": METHOD_TO_OP[m]})
            evs.append({"e": "OpAnswer", "t": t, "ok": bool(c["ok"])})
            reply(parse_message(answer_op(d, c["ok"])))
        else:
            evs.append({"e": "Wire", "t": t, "m": "other:" + str(m)})

    out = []

    async def one(variant, script):
        evs = []
        current = {}

        async def do_call(client, transport, t, c, observe):
            CUR.set(t)
            current[t] = c
            evs.append({"e": "Begin", "t": t, "kind": c["kind"], "op": c["op"]})
            try:
                if c["kind"] == "initialize":
                    res = await client.initialize()
                    outv = "cached" if isinstance(res, dict) else str(getattr(res, "protocolVersion", "none"))
                elif c["op"] == "list_tools":
                    res = await client.list_tools()
                    outv = "result" if isinstance(res, list) else "odd"
                else:
                    res = await client.call_tool("t", {"a": 1})
                    outv = "result"
            except VersionMismatchError:
                outv = "mismatch"
            except TimeoutError:
                outv = "timeout"
            except (RetryableError, NonRetryableError) as e:
                outv = "rpcError" if e.code == -32603 else "error"
            except (anyio.ClosedResourceError, anyio.BrokenResourceError):
                outv = "closed"
            except RuntimeError as e:
                outv = "notStarted" if "not started" in str(e).lower() else "exc:RuntimeError"
            except Exception as e:
                outv = "exc:" + type(e).__name__
            await anyio.sleep(0.01)          # the scripted server has seen everything written so far
            inited, cached, tver = observe()
            evs.append({"e": "Return", "t": t, "out": outv, "inited": inited, "cached": cached, "tver": tver})

        if variant == "mem":
            transport = MemTransport(evs, current)
            client = MCPClient(transport)

            def observe():
                name = getattr(client.server_info, "name", None)
                return bool(client.initialized), (name[4:] if isinstance(name, str) and name.startswith("srv-") else "none"), (transport.version or "unset")

            for st in script:
                if st["a"] == "Enter":
                    await transport.__aenter__()
                    evs.append({"e": "Enter"})
                elif st["a"] == "Exit":
                    await transport.__aexit__(None, None, None)
                    evs.append({"e": "Exit"})
                elif st["a"] == "Call":
                    await do_call(client, transport, st["t"], st, observe)
                elif st["a"] == "Race":
                    async with anyio.create_task_group() as tg:
                        for c in st["calls"]:
                            tg.start_soon(do_call, client, transport, c["t"], c, observe)
        else:
            with stdio_drv.seam() as procs:
                transport = StdioTransport(stdio_drv.params())
                client = MCPClient(transport)

                seen_ver = ["unset"]

                def observe():
                    name = getattr(client.server_info, "name", None)
                    bp = getattr(getattr(transport, "_client", None), "batch_processor", None)
                    if bp is not None:          # after the context was left the transport has dropped its client
                        seen_ver[0] = getattr(bp, "protocol_version", None) or "unset"
                    return bool(client.initialized), (name[4:] if isinstance(name, str) and name.startswith("srv-") else "none"), seen_ver[0]

                state = {"seen": 0, "stop": False}

                async def server():
                    while not state["stop"]:
                        await anyio.sleep(0.001)
                        if not procs:
                            continue
                        proc = procs[0]
                        lines = bytes(proc.stdin.data).split(b"\n")[:-1]
                        while state["seen"] < len(lines):
                            d = json.loads(lines[state["seen"]].decode())
                            state["seen"] += 1
                            serve(evs, current, "t1", d, lambda m: proc.stdout.feed((json.dumps(m.model_dump(exclude_none=True)) + "\n").encode()))

                async with anyio.create_task_group() as tg:
                    tg.start_soon(server)
                    entered = False
                    for s in script:
                        if s["a"] == "Enter":
                            await transport.__aenter__()
                            entered = True
                            evs.append({"e": "Enter"})
                        elif s["a"] == "Exit":
                            await anyio.sleep(0.01)
                            await transport.__aexit__(None, None, None)
                            entered = False
                            evs.append({"e": "Exit"})
                        elif s["a"] == "Call":
                            await do_call(client, transport, "t1", s, observe)
                    if entered:
                        await anyio.sleep(0.01)
                        await transport.__aexit__(None, None, None)
                    state["stop"] = True
                    tg.cancel_scope.cancel()
        return evs

    for variant, script in cases:
        box = []

        async def main(variant=variant, script=script, box=box):
            box.append(await one(variant, script))

        try:
            # backstop against a poll that never ends (the longest scripted session needs about 360 000: its server task polls every virtual millisecond through 60 s timeouts loop iterations)
            vloop.run(main, max_iter=5000000)
            out.append(box[0])
        except vloop.Deadlock:
            out.append([{"e": "Hung"}])
    return out


