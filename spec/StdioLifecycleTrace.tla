------------------------ MODULE StdioLifecycleTrace ------------------------
(* Real stdio_client runs with real child processes and the real clock.  Events:              *)
(*   Entered | EnterRaised(exc) | EnterCancelled                                              *)
(*   ExitBegin(path, moment)  Terminate  Kill  Waited(dtBucket)   (process proxy)             *)
(*   Broke(exc): the caller's enclosing task group could not be left after the exit           *)
(*   Returned(dtBucket: tenths of a second)  ChildState(s)  FdDelta(n)  Pending(kind)         *)
(* Times are bucketed to tenths of a second; Slack is the scheduling slack in tenths.         *)
(* TLC checks the shutdown protocol itself on StdioLifecycle (with and without the            *)
(* cancellation deviation); this module judges the statement's end-state clauses on every     *)
(* real run, plus "kill only after a full grace period following a terminate".                *)
EXTENDS StdioLifecycle, TraceBatch, Sequences

CONSTANT Slack
VARIABLES tid, l, obs
tvars == <<vars, tid, l, obs>>
Tr == Traces[tid]
Evs == Tr.ev
Ev == Evs[l]
Is(n) == l <= Len(Evs) /\ Ev.e = n
Consume == l' = l + 1 /\ tid' = tid

TInit ==
  /\ tid \in 1..NT /\ l = 1
  /\ beh = Traces[tid].beh /\ path = Traces[tid].path
  /\ phase = "body" /\ child = "running" /\ elapsed = 0 /\ termSent = FALSE /\ killSent = FALSE
  /\ obs = [entered |-> "no", returned |-> FALSE, dt |-> 0, states |-> {}, fd |-> 0, pending |-> "none", nterm |-> 0, nkill |-> 0, killAfterWait |-> TRUE, broke |-> FALSE]

Keep == UNCHANGED vars
TNext ==
  \/ Is("Entered") /\ Consume /\ Keep /\ obs' = [obs EXCEPT !.entered = "yes"]
  \/ Is("EnterRaised") /\ Consume /\ Keep /\ obs' = [obs EXCEPT !.entered = "raised"]
  \/ Is("EnterCancelled") /\ Consume /\ Keep /\ obs' = [obs EXCEPT !.entered = "cancelled"]    \* the surrounding timeout fired during entry
  \/ Is("ExitBegin") /\ Consume /\ Keep /\ obs' = obs
  \/ Is("Terminate") /\ Consume /\ Keep /\ obs' = [obs EXCEPT !.nterm = @ + 1]
  \/ Is("Kill") /\ Consume /\ Keep
       /\ obs' = [obs EXCEPT !.nkill = @ + 1, !.killAfterWait = @ /\ obs.nterm >= 1 /\ l > 1 /\ Evs[l - 1].e = "Waited" /\ Evs[l - 1].dt >= 9]
  \/ Is("Waited") /\ Consume /\ Keep /\ obs' = obs
  \/ Is("Hung") /\ Consume /\ Keep /\ obs' = obs          \* the exit never returned (watchdog of the harness)
  \/ Is("Broke") /\ Consume /\ Keep /\ obs' = [obs EXCEPT !.broke = TRUE]   \* the caller's own scopes were left unusable
  \/ Is("Returned") /\ Consume /\ Keep /\ obs' = [obs EXCEPT !.returned = TRUE, !.dt = Ev.dt]
  \/ Is("ChildState") /\ Consume /\ Keep /\ obs' = [obs EXCEPT !.states = @ \cup {Ev.s}]
  \/ Is("FdDelta") /\ Consume /\ Keep /\ obs' = [obs EXCEPT !.fd = Ev.n]
  \/ Is("Pending") /\ Consume /\ Keep /\ obs' = [obs EXCEPT !.pending = Ev.kind]
TSpec == TInit /\ [][TNext]_tvars

Unstartable == Tr.beh = "unstartable"
Clauses == <<
  <<"UnstartableRaises", Unstartable <=> obs.entered = "raised">>,
  <<"Returns", ~Unstartable => obs.returned>>,
  <<"CallerScopesIntact", ~obs.broke>>,
  <<"NoChildLeftBehind", obs.states \subseteq {"gone"}>>,
  <<"BoundedExit", obs.dt <= 20 + Slack>>,
  <<"NoFdLeft", obs.fd <= 0>>,
  <<"PendingNeverFabricated", obs.pending \in {"none", "result", "timeout", "cancelled", "error"}>>,
  <<"KillOnlyAfterGrace", obs.killAfterWait>>
>>
Judge ==
  /\ Reached(tid, l)
  /\ (l = Len(Evs) + 1 => Accept(tid) /\ JudgeAll(tid, Clauses, Tr.beh))
=============================================================================
