------------------------- MODULE SseTransportTrace -------------------------
(* Real sse_client runs over a scripted httpx transport under the virtual clock, following   *)
(* schedules generated from SseTransport.  A trace logs the environment steps as executed,   *)
(* the outcome of entering the context (returned / raised, model time, whether the message   *)
(* endpoint was known) and, at the end, everything that appeared on the read stream together *)
(* with the resources left behind.  The model's expectation at the end of the schedule        *)
(* (request state, number of terminal messages, server messages) travels with the trace.      *)
EXTENDS SseTransport, TraceBatch

VARIABLES tid
Tr == Traces[tid]
Evs == Tr.ev
EnterEv == CHOOSE i \in DOMAIN Evs : Evs[i].e = "Enter"
HasEnter == \E i \in DOMAIN Evs : Evs[i].e = "Enter"
E == Evs[EnterEv]
End == Evs[Len(Evs)]
Read == End.read
OwnIdx == {i \in DOMAIN Read : Read[i][1] \in {"own", "ownWrongType"}}
SrvSeq == SelectSeq(Read, LAMBDA x : x[1] = "srv")
Announced == \E i \in DOMAIN Evs : Evs[i].e = "Announce" /\ Evs[i].t < Timeout

Clauses == <<
  <<"EnterHappens", HasEnter>>,
  <<"LiveOrRaise", HasEnter /\ E.r = "returned" => E.url>>,
  <<"WithinTimeout", HasEnter => E.t <= Timeout>>,
  <<"EntersWhenAnnounced", HasEnter /\ Announced => E.r = "returned">>,
  \* a request written on the write stream of a live connection is POSTed to the announced
  \* endpoint (SendRequest puts a POST in flight): otherwise no answer can ever come "in the
  \* POST reply" and the connection is dead for sending although it was handed out as live
  <<"RequestPosted", End.unposted = 0>>,
  <<"OneTerminal", /\ Cardinality(OwnIdx) <= 1
                   /\ (End.expReq = "done" => Cardinality(OwnIdx) = 1)>>,
  \* when the model's schedule ends with the server's answer as the terminal message (answer in
  \* the POST reply, or on the event stream in time), the observed terminal is an answer too and
  \* not a synthesised error
  <<"AnswerIsTerminal", End.expSrc \in {"post", "event"} => \A i \in OwnIdx : Read[i][2] \in {"post", "event"}>>,
  <<"IdPreserved", \A i \in OwnIdx : Read[i][1] = "own">>,
  <<"NoForeignIds", \A i \in DOMAIN Read : Read[i][1] # "other">>,
  <<"EventsOnceInOrder", /\ Len(SrvSeq) = End.expSrv
                         /\ \A i \in DOMAIN SrvSeq : SrvSeq[i][3] = i>>,
  <<"ContentIntact", \A i \in DOMAIN Read : Read[i][5]>>,
  <<"CleanExit", End.tasks <= 0 /\ End.clients /\ (HasEnter /\ E.r = "returned" => End.streams)>>
>>

TInit == tid \in 1..NT /\ Init
TNext == UNCHANGED <<vars, tid>>
TSpec == TInit /\ [][TNext]_<<vars, tid>>
Judge == JudgeAll(tid, Clauses, Tr.estab) /\ Accept(tid)
=============================================================================
