-------------------------- MODULE BatchGateTrace --------------------------
(* Two kinds of records:                                                                      *)
(*  kind "gate": a script executed against the real StdioClient behind the process seam; each *)
(*     step logs what reached the read stream, the notification stream and the child's stdin; *)
(*     it must be the step BatchGate takes.                                                   *)
(*  kind "runs": run-length encoded decision vectors of the real supports_batching and        *)
(*     ProtocolVersion.compare(v, "2025-06-18") < 0 over a slice of the grid, in grid order;  *)
(*     every index of every run must agree with Supports.                                     *)
EXTENDS BatchGate, TraceBatch

VARIABLES tid, l
tvars == <<gvars, v, tid, l>>
Tr == Traces[tid]
Evs == Tr.ev
Ev == Evs[l]
Is(o) == Tr.kind = "gate" /\ l <= Len(Evs) /\ Ev.op = o
Consume == l' = l + 1 /\ tid' = tid
AsSeq(a) == [i \in DOMAIN a |-> <<a[i][1], a[i][2]>>]
Obs == /\ AsSeq(Ev.delivered) = SubSeq(delivered', Len(delivered) + 1, Len(delivered'))
       /\ AsSeq(Ev.notified) = SubSeq(notified', Len(notified) + 1, Len(notified'))
       /\ [i \in DOMAIN Ev.tochild |-> 0 - Ev.tochild[i][2]] = SubSeq(toChild', Len(toChild) + 1, Len(toChild'))
       /\ \A i \in DOMAIN Ev.tochild : Ev.tochild[i][1] = "err" /\ Ev.tochild[i][3] = 1

\* index -> triple, grid order
Triple(i, ylo) == <<ylo + (i \div 10000), (i \div 100) % 100, i % 100>>
\* the library's own ordering, both ways round: "newer than the cutoff" is the mirror image
Decision(fn, t) == IF fn = "compare>cutoff" THEN Lt(Cutoff, t) ELSE SupportsOpt(t)
RunOk(r, ylo) == \A i \in r[1]..r[2] : Decision(Tr.fn, Triple(i, ylo)) = r[3]

TInit == tid \in 1..NT /\ l = 1 /\ GInit
TNext ==
  \/ Is("SetVersion") /\ SetVersion(<<Ev.t[1], Ev.t[2], Ev.t[3]>>) /\ Obs /\ Consume
  \/ Is("Batch") /\ RecvBatch([i \in DOMAIN Ev.members |-> Ev.members[i]]) /\ Obs /\ Consume
  \/ Is("Single") /\ RecvSingle(Ev.kind) /\ Obs /\ Consume
  \/ /\ Tr.kind = "runs" /\ l <= Len(Evs) /\ Consume /\ UNCHANGED <<gvars, v>>
     /\ RunOk(Ev, Tr.ylo)
TSpec == TInit /\ [][TNext]_tvars
Judge == Reached(tid, l) /\ (l = Len(Evs) + 1 => Accept(tid))
=============================================================================
