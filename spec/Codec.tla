------------------------------- MODULE Codec -------------------------------
(***************************************************************************)
(* JSON encoding / decoding (C17):  chuk_mcp/protocol/fast_json.py         *)
(*   dumps:  TryOrjson -> Ok | Fail -> StdlibFallback      (orjson present)*)
(*           Stdlib                                        (orjson absent) *)
(*   loads:  the same shape, str or bytes input                            *)
(* A value is abstracted to the set of atom classes it contains.  The      *)
(* specification fixes which classes each encoder writes raw and which it  *)
(* escapes; "one NDJSON frame" is the fact that LF and CR are escaped by   *)
(* both, and the round trip is stated per (encoder, decoder) pair.         *)
(***************************************************************************)
EXTENDS Naturals, FiniteSets, TLC

Backends == {"orjson", "stdlib"}
\* string classes (by the characters they contain) and number classes
StrClasses == {"ascii", "empty", "lf", "cr", "nul", "ctl", "quote", "backslash", "nel", "ls", "ps", "bmp", "bmpEdge", "astral", "del"}
NumClasses == {"zero", "neg", "i31", "i53", "i63max", "u63", "u64max", "i64min", "frac", "negzero", "big", "denormal"}
Other == {"null", "true", "false", "emptyList", "emptyDict", "nonAsciiKey", "deep"}      \* deep: nested beyond what the fast encoder takes
Classes == StrClasses \cup NumClasses \cup Other

\* integers fit 64 bits (signed or unsigned), strings are free of lone surrogates: orjson accepts everything
\* except values nested deeper than its limit, which the library re-encodes with the standard encoder
OrjsonCan(cs) == "deep" \notin cs
EncPath(b, cs) == IF b = "orjson" THEN (IF OrjsonCan(cs) THEN "orjson" ELSE "fallback") ELSE "stdlib"

\* classes of characters written as escapes (never raw) by an encoder path
MustEscape == {"lf", "cr", "nul", "ctl", "quote", "backslash"}
Escaped(path, c) ==
  IF c \in MustEscape THEN TRUE
  ELSE IF path = "orjson" THEN FALSE                      \* everything else is written raw (UTF-8)
  ELSE c \in {"nel", "ls", "ps", "bmp", "bmpEdge", "astral", "del"}    \* stdlib: ensure_ascii escapes everything outside ' '..'~' 

VARIABLES enc, dec, cs, phase, text, result
vars == <<enc, dec, cs, phase, text, result>>
Init == enc \in Backends /\ dec \in Backends /\ cs \in {{a, b} : a \in Classes, b \in Classes}
        /\ phase = "value" /\ text = [path |-> "none", raw |-> {}] /\ result = "none"
Encode ==
  /\ phase = "value" /\ phase' = "text"
  /\ text' = [path |-> EncPath(enc, cs), raw |-> {c \in cs \cap StrClasses : ~Escaped(EncPath(enc, cs), c)}]
  /\ UNCHANGED <<enc, dec, cs, result>>
Decode ==
  /\ phase = "text" /\ phase' = "decoded" /\ result' = "equal"          \* both decoders accept both encoders' output
  /\ UNCHANGED <<enc, dec, cs, text>>
Next == Encode \/ Decode
Spec == Init /\ [][Next]_vars

OneFrame == phase # "value" => text.raw \cap {"lf", "cr"} = {}
RoundTrip == phase = "decoded" => result = "equal"
=============================================================================
