--------------------------- MODULE HttpTransport ---------------------------
(***************************************************************************)
(* Streamable HTTP transport (C11):                                        *)
(*   chuk_mcp/transports/http/transport.py  _outgoing_message_handler,     *)
(*   _send_message_internal, _process_sse_text, _route_response            *)
(*                                                                         *)
(* The sender loop takes one outgoing message at a time (Post), the        *)
(* environment - the HTTP endpoint and the network - chooses how the POST  *)
(* is answered (a behaviour b), and the transport turns the answer into    *)
(* messages on the read stream (Deliver).  What may appear on the read     *)
(* stream for a behaviour is the relation Allowed(kind, b) - the           *)
(* statement's outcome relation.  Items are                                *)
(*    [k: resp | err | notif, id: own | other | none, src: server | synth] *)
(* Session tracking: every POST carries the most recent session id issued  *)
(* by a response with status < 400.                                        *)
(***************************************************************************)
EXTENDS Naturals, Sequences, FiniteSets, TLC

CONSTANTS MaxPosts, Sessions

Kinds == {"request", "notification"}
Statuses == {200, 202, 204, 302, 404, 500}
CTypes == {"json", "sse", "other", "absent"}
Bodies == {"resp", "respNonObj", "errResp", "batch", "notifsThenResp", "respThenNotif", "wrongId", "errNullId", "errOtherId", "empty", "truncated", "nonJson", "nonUtf8", "text"}
Encs == {"std", "noEvent", "noSpace", "crlf", "cr", "comments", "multiData", "pingFirst"}
Excs == {"none", "connect", "timeout", "protocol"}
SessH == {"absent"} \cup Sessions

Beh == [status : Statuses, ctype : CTypes, body : Bodies, enc : Encs, exc : Excs, sess : SessH]

\* combinations that describe something an endpoint can actually do
Meaningful(b) ==
  /\ (b.exc # "none" => b.status = 200 /\ b.ctype = "absent" /\ b.body = "empty" /\ b.enc = "std" /\ b.sess = "absent")
  /\ (b.enc # "std" => b.ctype = "sse" /\ b.body \in {"resp", "errResp", "notifsThenResp", "respThenNotif", "respNonObj"} /\ b.status = 200)
  /\ (b.status \in {204, 302} => b.body = "empty" /\ b.ctype = "absent")
  /\ (b.status >= 400 => b.body \in {"empty", "text", "errResp", "errNullId", "errOtherId"} /\ b.ctype \in {"json", "other", "absent"})
  /\ (b.body \in {"errNullId", "errOtherId"} => b.ctype = "json" /\ b.enc = "std")
  /\ (b.status = 202 => b.body \in {"empty", "text"} /\ b.ctype \in {"other", "absent"})
  /\ (b.ctype = "absent" => b.body = "empty")
  /\ (b.ctype = "sse" => b.body \notin {"batch", "text", "nonJson"})
  /\ (b.ctype = "json" => b.body # "notifsThenResp")
  /\ (b.body = "empty" /\ b.status = 200 => b.ctype \in {"json", "sse", "other", "absent"})

Behs == {b \in Beh : Meaningful(b)}

Own(k) == [k |-> k, id |-> "own", src |-> "server"]
Item(k, i, s) == [k |-> k, id |-> i, src |-> s]
SynthOwn == {<<Item("err", "own", "synth")>>, <<Item("resp", "own", "synth")>>}      \* one synthesised terminal (code free)
\* for a notification POST nothing carrying an id may appear
SynthNone == {<<>>, <<Item("err", "none", "synth")>>}

\* the messages a well-formed body contains, in order
Contained(b) ==
  CASE b.body \in {"resp", "respNonObj"} -> <<Own("resp")>>
    [] b.body = "errResp" -> <<Own("err")>>
    [] b.body = "batch" -> <<Item("notif", "none", "server"), Own("resp")>>
    [] b.body = "notifsThenResp" -> <<Item("notif", "none", "server"), Item("notif", "none", "server"), Own("resp")>>
    [] b.body = "respThenNotif" -> <<Own("resp"), Item("notif", "none", "server")>>      \* the body goes on after the response
    [] b.body = "wrongId" -> <<Item("resp", "other", "server")>>
    [] b.body = "errNullId" -> <<Item("err", "none", "server")>>
    [] b.body = "errOtherId" -> <<Item("err", "other", "server")>>
    [] OTHER -> <<>>

WellFormedBody(b) == b.body \in {"resp", "respNonObj", "errResp", "batch", "notifsThenResp", "respThenNotif", "wrongId", "errNullId", "errOtherId"}
ForeignAnswer(b) == b.body \in {"wrongId", "errNullId", "errOtherId"}

\* the statement's outcome relation
\* the server answered under a different id: its message is delivered as it is; the transport
\* may in addition close the request with a synthesised terminal
ForeignOutcomes(b) == {Contained(b)} \cup {Contained(b) \o d : d \in SynthOwn}
Allowed(kind, b) ==
  LET synth == IF kind = "request" THEN SynthOwn ELSE SynthNone IN
  IF b.exc # "none" THEN synth
  ELSE IF b.status < 400 /\ ForeignAnswer(b) /\ kind = "request" THEN ForeignOutcomes(b)
  \* an error status always owes the request a terminal with ITS id; a JSON-RPC error body under
  \* another (or no) id may be passed on in addition, never instead
  ELSE IF b.status >= 400 THEN (IF ForeignAnswer(b) /\ kind = "request" THEN synth \cup {Contained(b) \o d : d \in SynthOwn} ELSE synth)
  ELSE IF b.ctype = "json" THEN (IF WellFormedBody(b) THEN {Contained(b)} ELSE synth)
  ELSE IF b.ctype = "sse" THEN
       (IF WellFormedBody(b) THEN {Contained(b)}
        ELSE IF b.body = "truncated" THEN synth \cup {<<Own("resp")>>}     \* an unterminated last event may be kept or discarded
        ELSE synth)
  ELSE \* other / absent content type: a JSON or SSE body may still be understood
       (IF WellFormedBody(b) THEN {Contained(b)} \cup synth ELSE synth)

VARIABLES n, session, alive, posts, reads
vars == <<n, session, alive, posts, reads>>

Init == n = 0 /\ session = "absent" /\ alive = TRUE /\ posts = <<>> /\ reads = <<>>

\* one iteration of the sender loop: POST with the current session header, environment answers,
\* the answer is delivered; a session id on a response with status < 400 is adopted
PostStep(kind, b) ==
  /\ alive /\ n < MaxPosts
  /\ n' = n + 1
  /\ posts' = Append(posts, [kind |-> kind, hdr |-> session, beh |-> b])
  /\ \E d \in Allowed(kind, b) : reads' = Append(reads, d)
  /\ session' = IF b.exc = "none" /\ b.status < 400 /\ b.sess # "absent" THEN b.sess ELSE session
  /\ UNCHANGED alive

\* a notification has no id to answer: the endpoint acknowledges (or fails), it does not send responses
BehOk(kind, b) == kind = "notification" => b.body \in {"empty", "text", "nonJson"}
Next == \E kind \in Kinds, b \in Behs : BehOk(kind, b) /\ PostStep(kind, b)
Spec == Init /\ [][Next]_vars

-----------------------------------------------------------------------------
CountOwn(d) == Cardinality({i \in DOMAIN d : d[i].id = "own"})
\* exactly one terminal message with the request's id (except when the server itself answered
\* under a different id), nothing with the request's id... and nothing with ANY id for a notification
OneTerminal ==
  \A i \in DOMAIN posts :
     /\ (posts[i].kind = "request" /\ ~(ForeignAnswer(posts[i].beh) /\ posts[i].beh.status < 400) => CountOwn(reads[i]) = 1)
     /\ (posts[i].kind = "notification" /\ ~WellFormedBody(posts[i].beh) => \A j \in DOMAIN reads[i] : reads[i][j].id = "none")
NoInvention == \A i \in DOMAIN posts : reads[i] \in Allowed(posts[i].kind, posts[i].beh)
Survives == alive
RECURSIVE LastIssued(_)
LastIssued(i) == IF i = 0 THEN "absent"
                 ELSE LET b == posts[i].beh IN
                      IF b.exc = "none" /\ b.status < 400 /\ b.sess # "absent" THEN b.sess ELSE LastIssued(i - 1)
SessionMostRecent == \A i \in DOMAIN posts : posts[i].hdr = LastIssued(i - 1)

\* Streamable HTTP implements Pipe for the answers it is obliged to pass on (status < 400, a JSON
\* or event-stream body that is well formed): sent = what those bodies contain, in POST order;
\* delivered = the server's messages among what was read for those POSTs
Obliged(p) == p.beh.exc = "none" /\ p.beh.status < 400 /\ p.beh.ctype \in {"json", "sse"} /\ WellFormedBody(p.beh)
ServerItems(d) == SelectSeq(d, LAMBDA it : it.src = "server")
RECURSIVE SentUpTo(_), DeliveredUpTo(_)
SentUpTo(i) == IF i = 0 THEN <<>> ELSE SentUpTo(i - 1) \o (IF Obliged(posts[i]) THEN Contained(posts[i].beh) ELSE <<>>)
DeliveredUpTo(i) == IF i = 0 THEN <<>> ELSE DeliveredUpTo(i - 1) \o (IF Obliged(posts[i]) THEN ServerItems(reads[i]) ELSE <<>>)
PipeOfHttp == INSTANCE Pipe WITH sent <- SentUpTo(Len(posts)), delivered <- DeliveredUpTo(Len(posts))
ImplementsPipe == PipeOfHttp!Spec
\* and it is complete after every POST: everything those bodies contained has been handed over
PipeDrained == DeliveredUpTo(Len(posts)) = SentUpTo(Len(posts))
=============================================================================
