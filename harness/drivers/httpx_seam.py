"""Scripted httpx: every httpx.AsyncClient created while the seam is active talks to a
MockTransport whose handler is supplied by the driver (no sockets, no real time)."""
import contextlib

import httpx


@contextlib.contextmanager
def seam(handler):
    real = httpx.AsyncClient
    created = []

    class ScriptedClient(real):
        def __init__(self, *a, **kw):
            kw.pop("transport", None)
            kw["transport"] = httpx.MockTransport(handler)
            super().__init__(*a, **kw)
            created.append(self)

    httpx.AsyncClient = ScriptedClient
    try:
        yield created
    finally:
        httpx.AsyncClient = real
