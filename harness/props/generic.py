"""Replay dispatch for the non-RequestWait checks: each replay record names its kind."""
import json
import os

from harness import tlc, validate, gen


def replay(rep):
    kind = rep["kind"]
    fn = REPLAYERS.get(kind)
    if fn is None:
        raise SystemExit("no replayer for kind %r" % kind)
    return fn(rep)


def _errorclass_case(rep):
    from harness.drivers import errors_drv
    sets = errors_drv.extract_sets()
    defs = {"Gen" + k: set(v) for k, v in sets.items()}
    tmod = gen.write_module("MC_ErrorClassTrace", ["ErrorClassTrace"], defs)
    h, code, shape = rep["case"]
    recs = errors_drv.run_fn_cases([code]) if rep.get("fn") else errors_drv.run_cases([(h, code, shape)])
    print(json.dumps(recs))
    res = validate.validate(tmod, recs, {k: ("<-", "Gen" + k) for k in sets}, work=os.path.join(tlc.WORK, "replay_ec"), jobs=1)
    print("failed clauses:", res["failed"])
    return rep["clause"] in res["failed"].get(0, [])


def _errorclass_sets(rep):
    from harness.drivers import errors_drv
    sets = errors_drv.extract_sets()
    gen.write_module("MC_ErrorClass", ["ErrorClass"], {"Gen" + k: set(v) for k, v in sets.items()})
    r = tlc.run_tlc(os.path.join(gen.GEN, "MC_ErrorClass.tla"), "mc/ErrorClass.cfg", work=os.path.join(tlc.WORK, "replay_ec"), timeout=600)
    print("violated:", r.invariant_violated)
    return rep["clause"] in r.invariant_violated


def _session_ops(rep):
    from harness.props import session
    from harness.drivers import server_drv
    t = server_drv.run_session_ops(rep["ops"])
    res = validate.validate("SessionStoreTrace", [t], session.trace_constants(), work=os.path.join(tlc.WORK, "replay_ss"), jobs=1)
    print("rejected at:", res["rejected"])
    for e in t[: (res["rejected"].get(0) or 0)]:
        print(json.dumps(e, default=str))
    return bool(res["rejected"])


def _dispatch_case(rep):
    from harness.props import dispatch
    from harness.drivers import server_drv
    names = server_drv.std_notification_names()
    tmod = gen.write_module("MC_ServerDispatchTrace", ["ServerDispatchTrace"], {"GenStdNotifs": set(names)})
    recs = server_drv.run_dispatch_cases([rep["case"]])
    print(json.dumps(recs))
    consts = dict(dispatch.TREE)
    consts["StdNotifs"] = ("<-", "GenStdNotifs")
    res = validate.validate(tmod, recs, consts, work=os.path.join(tlc.WORK, "replay_sd"), jobs=1)
    print("failed clauses:", res["failed"])
    return rep["clause"] in res["failed"].get(0, [])


def _handshake(rep):
    from harness.props import handshake
    from harness.drivers import handshake_drv
    from harness.common import Ctx
    traces = handshake_drv.run_cases([rep["case"]])
    print(json.dumps(traces))
    versions = set(traces[0]["sup"]) | {e.get("v") for e in traces[0]["ev"] if isinstance(e.get("v"), str)}
    for e in traces[0]["ev"]:
        if isinstance(e.get("a"), dict) and isinstance(e["a"].get("v"), str):
            versions.add(e["a"]["v"])
        if isinstance(e.get("version"), str):
            versions.add(e["version"])
    res = validate.two_stage("HandshakeTrace", traces, handshake.trace_constants(rep["paired"], versions), work=os.path.join(tlc.WORK, "replay_hs"), jobs=1)
    print("verdict:", res["verdict"][0])
    return rep["clause"] in res["verdict"][0]["clauses"]


def _handshake_server(rep):
    from harness.props import handshake
    from harness.drivers import handshake_drv
    recs = handshake_drv.run_server_cases([rep["value"]])
    print(json.dumps(recs))
    res = validate.validate("HandshakeServerTrace", recs, handshake.trace_constants(True, set()), work=os.path.join(tlc.WORK, "replay_hs"), jobs=1)
    print("failed clauses:", res["failed"])
    return rep["clause"] in res["failed"].get(0, [])


def _gate_script(rep):
    from harness.props import versioning
    from harness.drivers import stdio_drv
    t = stdio_drv.run_gate_scripts([rep["script"]])
    print(json.dumps(t))
    res = validate.validate("BatchGateTrace", [{"kind": "gate", "ylo": 0, "ev": t[0]}], versioning.CONSTS, work=os.path.join(tlc.WORK, "replay_bg"), jobs=1)
    print("rejected:", res["rejected"])
    return bool(res["rejected"])


def _version_runs(rep):
    from harness.props import versioning
    ylo, yhi, out = versioning._vectors((rep["ylo"], rep["yhi"]))
    runs = out[rep["fn"]]
    print(runs[:10])
    res = validate.validate("BatchGateTrace", [{"kind": "runs", "ylo": ylo, "ev": runs}], versioning.CONSTS, work=os.path.join(tlc.WORK, "replay_bg"), jobs=1)
    print("rejected:", res["rejected"])
    return bool(res["rejected"])


def _framing(rep):
    from harness.props import framing
    from harness.drivers import stdio_drv
    t = stdio_drv.run_framing([(rep["lines"], rep.get("tail"), rep["sizes"])])
    print(json.dumps(t[0]["ev"]))
    consts = dict(framing.TREE)
    consts.update({"Upto": ("<-", "TraceUpto"), "Streams": set(), "MaxCuts": 0})
    res = validate.two_stage("StdioFramingTrace", [{k: v for k, v in t[0].items() if k != "kinds"}], consts, work=os.path.join(tlc.WORK, "replay_fr"), jobs=1)
    print("verdict:", res["verdict"][0])
    return rep["clause"] in res["verdict"][0]["clauses"]


def _stdio_out(rep):
    from harness.props import framing_out
    from harness.drivers import stdio_drv
    t = stdio_drv.run_out([rep["script"]], 0)
    print(json.dumps(t[0]))
    res = validate.validate("StdioOutTrace", t, framing_out.CONSTS, work=os.path.join(tlc.WORK, "replay_so"), jobs=1)
    print("rejected:", res["rejected"], "failed:", res["failed"])
    return bool(res["rejected"]) or any(c != "x" for c in res["failed"].get(0, []))


def _lifecycle(rep):
    from harness.props import lifecycle
    t = lifecycle.to_trace(rep["scenario"], lifecycle._run(rep["scenario"]))
    print(json.dumps(t))
    res = validate.validate("StdioLifecycleTrace", [t], {"ExitAbortedByCancellation": False, "Slack": lifecycle.SLACK}, work=os.path.join(tlc.WORK, "replay_lc"), jobs=1)
    print("failed:", res["failed"])
    return rep["clause"] in res["failed"].get(0, [])


def _host_case(rep):
    from harness.props import host
    from harness.drivers import host_drv
    work = os.path.join(tlc.WORK, "replay_host")
    os.makedirs(work, exist_ok=True)
    r = host_drv.run_case((work, 0, rep["case"]))
    print(json.dumps(r))
    r["obs"] = {k: v for k, v in r["obs"].items() if k != "detail"}
    consts = dict(host.TREE)
    consts["NServers"] = 4
    res = validate.validate("HostLaunchTrace", [r], consts, work=work, jobs=1)
    print("failed:", res["failed"])
    return rep["clause"] in res["failed"].get(0, [])


def _http_seq(rep):
    from harness.props import http
    from harness.drivers import http_drv
    if any("real" in st for st in rep["seq"]):
        t = http_drv.run_real_socket([[st["real"] for st in rep["seq"]]])      # over the loopback socket again
    else:
        t = http_drv.run_sequences([rep["seq"]])
    print(json.dumps(t[0]))
    res = validate.validate("HttpTransportTrace", t, http.CONSTS, work=os.path.join(tlc.WORK, "replay_http"), jobs=1)
    print("failed:", res["failed_pairs"])
    return any(c == rep["clause"] for c, _ in res["failed_pairs"].get(0, []))


def _sse_script(rep):
    from harness.props import sse
    from harness.drivers import sse_drv
    t = sse_drv.run_scripts([(rep["path"], rep["seed"])])
    print(json.dumps(t[0]))
    consts = dict(sse.TREE)
    consts.update({"Timeout": sse_drv.TIMEOUT_UNITS, "MaxTime": 100, "MaxSrv": 100})
    res = validate.validate("SseTransportTrace", t, consts, work=os.path.join(tlc.WORK, "replay_sse"), jobs=1)
    print("failed:", res["failed"])
    return rep["clause"] in res["failed"].get(0, [])


def _codec_value(rep):
    from harness.props import codec
    from harness.workers.codec_worker import untag
    v = untag(rep["tree"])
    bad = False
    for enc, no in (("orjson", False), ("stdlib", True)):
        t = codec.worker(no, {"op": "encode", "values": [rep["tree"]]})[0]
        s = "".join(chr(c) for c in t["text"])
        print(enc, repr(s)[:200])
        if "\n" in s or "\r" in s or not t["ok"]:
            bad = True
        for dec, no2 in (("orjson", False), ("stdlib", True)):
            d = codec.worker(no2, {"op": "decode", "texts": [[t["text"], False], [t["text"], True]]})
            if not all(x["ok"] and x["tree"] == rep["tree"] for x in d):
                print("  round trip fails under", dec)
                bad = True
    return bad


def _validate_case(rep):
    from harness.props import models
    from harness.common import Ctx
    ctx = Ctx(rep.get("pid", "C09"), "quick", 0)
    c = rep["case"]
    if c["kind"] == "model":
        cases = [{"cls": c["full"], "wire": c["wire"]}]
        a = models.worker(False, {"op": "validate", "cases": cases})["results"][0]
        b = models.worker(True, {"op": "validate", "cases": cases})["results"][0]
        print("pydantic:", json.dumps(a)[:500])
        print("fallback:", json.dumps(b)[:500])
        return a["ok"] != b["ok"] or a["typed"] != b["typed"] or a["dump"] != b["dump"] or not a["ok"]
    recs = models.run_union_core() + models.run_hooks() + models.run_via()
    for r in recs:
        if all(r.get(k) == c.get(k) for k in ("kind", "cls", "inv", "helper", "ty", "type", "backend") if k in c) and r.get("v") == c.get("v"):
            print(json.dumps(r))
            return r != {k: v for k, v in c.items()} or True
    return False


def _envelope_case(rep):
    from harness.props import models
    if "src" not in rep:
        print(json.dumps(rep["case"]))
        print("recorded before the emitter case was stored: re-run ./check C02 to re-evaluate")
        return True
    fb = rep["case"]["backend"] == "fallback"
    out = models.worker(fb, {"op": "emit", "cases": [rep["src"]]})["results"]
    recs = [r for r in models.emit_recs([rep["src"]], out, fb, {}) if r["form"] == rep["case"]["form"] or not r["built"]]
    for r in recs:
        print(json.dumps({k: v for k, v in r.items() if k != "src"}))
    built = [{k: v for k, v in x.items() if k not in ("built", "pcls", "src")} for x in recs if x["built"]]
    if not built:
        return False
    res = validate.validate("EnvelopeTrace", built, {}, work=os.path.join(tlc.WORK, "replay_env"), jobs=1)
    print("failed:", res["failed"])
    return any(rep["clause"] in v for v in res["failed"].values())


def _carrier_conv(rep):
    from harness.props import carrier
    from harness.drivers import carrier_drv
    t = carrier_drv.run_conversations([(rep["carrier"], rep["conv"])])
    print(json.dumps(t[0]))
    res = validate.validate("ChannelTrace", t, carrier.CONSTS, work=os.path.join(tlc.WORK, "replay_ch"), jobs=1)
    print("failed:", res["failed"])
    return rep["clause"] in res["failed"].get(0, [])


def _routing(rep):
    from harness.drivers import stdio_drv
    t = stdio_drv.run_routing([rep["script"]])
    print(json.dumps(t[0]))
    slim = [[{k: v for k, v in e.items() if k != "stray"} for e in t[0]]]
    res = validate.validate("StdioRoutingTrace", slim, {"Ids": {"a", "7", "b"}, "MaxMsgs": 1000}, work=os.path.join(tlc.WORK, "replay_rt"), jobs=1)
    print("rejected:", res["rejected"])
    return bool(res["rejected"]) or any(e.get("stray") for e in t[0])


def _raw_trace(rep):
    """a recorded run the trace specification could not evaluate: shown as recorded (re-run the
    check to see whether the tree still produces such runs)"""
    print(json.dumps(rep["trace"], default=str)[:2000])
    try:
        validate.validate(rep["module"], [rep["trace"]], {}, work=os.path.join(tlc.WORK, "replay_raw"), jobs=1)
    except validate.TraceEvalError:
        return True
    except Exception as e:
        print("cannot be re-validated outside its check (%s); re-run the check" % type(e).__name__)
        return True
    return False


REPLAYERS = {"raw_trace": _raw_trace, "routing": _routing, "carrier_conv": _carrier_conv, "validate_case": _validate_case, "envelope_case": _envelope_case, "codec_value": _codec_value, "sse_script": _sse_script, "http_seq": _http_seq, "host_case": _host_case, "lifecycle": _lifecycle, "stdio_out": _stdio_out, "framing": _framing, "gate_script": _gate_script, "version_runs": _version_runs, "handshake": _handshake, "handshake_server": _handshake_server, "dispatch_case": _dispatch_case, "session_ops": _session_ops, "errorclass_case": _errorclass_case, "errorclass_sets": _errorclass_sets}
