"""Batch trace validation: thousands of recorded traces per TLC JVM, several JVMs in parallel.

validate(module, traces, constants) ->
   {"accepted": [...tid], "rejected": {tid: matched_prefix_len}, "failed": {tid: [clauses]},
    "states": n, "transitions": n}
tids are indices into `traces` (0-based on the Python side).
"""
import concurrent.futures as cf
import json
import os

from harness import tlc


def _cfg_text(spec, constants, constraint="Judge", post="Post", extra_lines=()):
    lines = ["SPECIFICATION " + spec, "CONSTANTS"]
    for k, v in constants.items():
        if isinstance(v, tuple) and len(v) == 2 and v[0] == "<-":
            lines.append("  %s <- %s" % (k, v[1]))
        else:
            lines.append("  %s = %s" % (k, _tla(v)))
    lines.append("CONSTRAINT " + constraint)
    lines.append("POSTCONDITION " + post)
    lines.extend(extra_lines)
    return "\n".join(lines) + "\n"


def _tla(v):
    if isinstance(v, bool):
        return "TRUE" if v else "FALSE"
    if isinstance(v, int):
        return str(v)
    if isinstance(v, str):
        return '"%s"' % v
    if isinstance(v, (set, frozenset, list, tuple)):
        return "{" + ", ".join(_tla(x) for x in sorted(v, key=str)) + "}"
    raise TypeError(v)


def tlc_safe(x):
    """JSON that TLC's Json module can read: no null, no floats, ints inside 32 bits."""
    if x is None:
        return "null"
    if isinstance(x, bool):
        return x
    if isinstance(x, int):
        return x if -(2**31) < x < 2**31 else "int:%d" % x
    if isinstance(x, float):
        return "float:%r" % x
    if isinstance(x, dict):
        return {str(k): tlc_safe(v) for k, v in x.items()}
    if isinstance(x, (list, tuple)):
        return [tlc_safe(v) for v in x]
    return x


class TraceEvalError(Exception):
    """a recorded trace made TLC fail while EVALUATING the trace specification (a value of a shape
    the specification cannot even compare: null where a record belongs, a string where a number
    belongs).  That is an observation the model does not explain, not a failure of the machinery:
    harness/main.py reports it as a violation."""

    def __init__(self, module, items):
        super().__init__("%d trace(s) outside what %s can evaluate" % (len(items), module))
        self.module = module
        self.items = items          # [(trace, event index or 0, TLC's message)]


def _eval_error(e):
    """(tid, l, message) if the TLC failure is an evaluation error inside a trace, else None"""
    out = getattr(e, "out", "") or ""
    if "evaluating" not in out and "unexpected exception" not in out and "Attempted to" not in out:
        return None
    import re
    tids = re.findall(r"/\\ tid = (\d+)", out)
    if not tids:
        return None
    ls = re.findall(r"/\\ l = (\d+)", out)
    m = re.search(r"(Attempted to[^\n]*(?:\n[^\n]*){0,3})", out)
    return int(tids[-1]), (int(ls[-1]) if ls else 0), (m.group(1) if m else "evaluation error").replace("\n", " ")[:300]


def _one(args):
    module, cfgp, tracefile, outfile, work, timeout, dfs, heap = args
    part = json.load(open(tracefile))
    index = list(range(1, len(part) + 1))       # current position -> original 1-based tid
    evalerr = []
    gen = dist = 0
    res = {"accepted": [], "maxl": [0] * len(part), "failed": []}
    while part:
        try:
            r = tlc.run_tlc(module, cfgp, work=work, workers=1, env={"TRACE_FILE": tracefile, "OUT_FILE": outfile}, timeout=timeout, dfs=dfs, heap=heap)
        except tlc.TLCError as e:
            info = _eval_error(e)
            if info is None or not (1 <= info[0] <= len(part)) or len(evalerr) >= 5:
                if evalerr:
                    break           # enough has been seen; the rest of this chunk is not judged
                raise
            tid, l, msg = info
            evalerr.append((index[tid - 1], l, msg))
            del part[tid - 1]
            del index[tid - 1]
            with open(tracefile, "w") as f:
                json.dump(part, f)
            if os.path.exists(outfile):
                os.remove(outfile)
            continue
        if not os.path.exists(outfile):
            raise tlc.TLCError("trace validation produced no result file:\n" + r.out[-3000:])
        sub = json.load(open(outfile))
        gen, dist = r.generated, r.distinct
        res["accepted"] = [index[j - 1] for j in sub["accepted"]]
        for j, v in enumerate(sub["maxl"], 1):
            res["maxl"][index[j - 1] - 1] = v
        res["failed"] = [[index[item[0] - 1]] + list(item[1:]) for item in sub["failed"]]
        break
    res["evalerr"] = evalerr
    return res, gen, dist


def validate(module, traces, constants, *, work, jobs=16, chunk=400, timeout=900, dfs=False, spec="TSpec", heap="2g"):
    """Validate `traces` (list of JSON-able trace records) against spec/<module>.tla."""
    if not traces:
        return {"accepted": [], "rejected": {}, "failed": {}, "states": 0, "transitions": 0}
    os.makedirs(work, exist_ok=True)
    cfgp = os.path.join(work, os.path.basename(module).replace(".tla", "") + "_%s.cfg" % abs(hash(json.dumps(constants, sort_keys=True, default=str))))
    with open(cfgp, "w") as f:
        f.write(_cfg_text(spec, constants))
    nchunks = max(1, (len(traces) + chunk - 1) // chunk)
    if nchunks > jobs * 2 and chunk >= 200:
        nchunks = jobs * 2
    size = (len(traces) + nchunks - 1) // nchunks
    tasks = []
    for i in range(nchunks):
        part = traces[i * size:(i + 1) * size]
        if not part:
            continue
        mb = os.path.basename(module).replace(".tla", "")
        tf = os.path.join(work, "%s_in_%d.json" % (mb, i))
        of = os.path.join(work, "%s_out_%d.json" % (mb, i))
        if os.path.exists(of):
            os.remove(of)
        with open(tf, "w") as f:
            json.dump(tlc_safe(part), f)
        tasks.append((i * size, len(part), (module, cfgp, tf, of, work, timeout, dfs, heap)))
    accepted, rejected, failed, failed_pairs = [], {}, {}, {}
    evalerrs = []
    states = trans = 0
    with cf.ThreadPoolExecutor(max_workers=jobs) as ex:
        futs = [(base, n, ex.submit(_one, a)) for base, n, a in tasks]
        for base, n, fu in futs:
            res, gen, dist = fu.result()
            states += dist
            trans += gen
            acc = set(res["accepted"])
            maxl = res["maxl"]
            bad = {t for t, _l, _m in res.get("evalerr", [])}
            for t, l, msg in res.get("evalerr", []):
                evalerrs.append((traces[base + t - 1], l, msg))
            for j in range(1, n + 1):
                if j in bad:
                    continue
                if j in acc:
                    accepted.append(base + j - 1)
                else:
                    rejected[base + j - 1] = maxl[j - 1]
            for item in res["failed"]:
                tid, clause = item[0], item[1]
                detail = item[2] if len(item) > 2 else None
                failed_pairs.setdefault(base + tid - 1, []).append((clause, detail))
                lst = failed.setdefault(base + tid - 1, [])
                if clause == "DriverFlags" and detail:
                    for d in detail:
                        if d not in lst:
                            lst.append(d)
                elif clause != "DriverFlags" and clause not in lst:
                    lst.append(clause)
    if evalerrs:
        raise TraceEvalError(os.path.basename(module).replace(".tla", ""), evalerrs)
    return {"accepted": accepted, "rejected": rejected, "failed": failed, "failed_pairs": failed_pairs, "states": states, "transitions": trans}


def two_stage(module, traces, strict_constants, *, work, **kw):
    """Stage 1: strict (implementation-shaped) validation.  Stage 2: traces stage 1 rejects go
    through the total observer.  Returns per-trace verdicts:
       verdict[i] = {"stage": 1|2, "clauses": [...failed], "matched": k}
    plus totals."""
    c1 = dict(strict_constants)
    c1["Strict"] = True
    r1 = validate(module, traces, c1, work=os.path.join(work, "strict"), **kw)
    verdict = {}
    for i in r1["accepted"]:
        verdict[i] = {"stage": 1, "clauses": r1["failed"].get(i, []), "matched": None}
    rej = sorted(r1["rejected"])
    states, trans = r1["states"], r1["transitions"]
    if rej:
        c2 = dict(strict_constants)
        c2["Strict"] = False
        sub = [traces[i] for i in rej]
        r2 = validate(module, sub, c2, work=os.path.join(work, "obs"), **kw)
        states += r2["states"]
        trans += r2["transitions"]
        for j, i in enumerate(rej):
            if j in r2["rejected"]:
                verdict[i] = {"stage": 0, "clauses": ["MALFORMED"], "matched": r2["rejected"][j]}
            else:
                verdict[i] = {"stage": 2, "clauses": r2["failed"].get(j, []), "matched": r1["rejected"][i]}
    return {"verdict": verdict, "states": states, "transitions": trans, "drift": len(rej)}
