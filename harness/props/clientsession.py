"""Growth of the specification: ClientSession (MCPClient / connect_to_server over a Transport).
Not one of the listed statements: a run the specification cannot follow is reported as DRIFT in the
output and the evidence of the check that hosts it (C03), never as a violation."""
import json
import os
import random

from harness import tlc, validate, par
from harness.common import Machinery
from harness.drivers import client_drv as cd

CONSTS = {"Tasks": {"t1", "t2"}, "Ops": {"list_tools", "call_tool"}, "Offered": {"2025-06-18", "2025-03-26", "2024-11-05"},
          "Answers": set(), "MaxCalls": 100}
OFFERED = ["2025-06-18", "2025-03-26", "2024-11-05"]
ANSWERS = OFFERED + ["1999-01-01", "rpcError", "silence"]


def _run(chunk):
    return cd.run_scripts(chunk)


def race_scripts(rng, n):
    out = []
    for _ in range(n):
        calls = []
        for t in ("t1", "t2"):
            kind = rng.choice(["op", "op", "initialize"])
            calls.append({"a": "Call", "t": t, "kind": kind, "op": rng.choice(["list_tools", "call_tool"]) if kind == "op" else "none",
                          "init": rng.choice(ANSWERS), "ok": rng.random() < 0.7})
        s = [{"a": "Enter"}]
        if rng.random() < 0.4:
            s.append({"a": "Call", "t": "t1", "kind": "initialize", "op": "none", "init": rng.choice(ANSWERS), "ok": True})
        s.append({"a": "Race", "calls": calls})
        for _k in range(rng.randrange(0, 3)):
            kind = rng.choice(["op", "initialize"])
            s.append({"a": "Call", "t": rng.choice(["t1", "t2"]), "kind": kind, "op": rng.choice(["list_tools", "call_tool"]) if kind == "op" else "none",
                      "init": rng.choice(ANSWERS), "ok": rng.random() < 0.7})
        s.append({"a": "Exit"})
        out.append(s)
    return out


def growth(ctx, quick):
    work = os.path.join(ctx.work, "clientsession")
    r = tlc.run_tlc("ClientSession", "mc/ClientSession.cfg", work=os.path.join(work, "mc"), timeout=600, coverage=True)
    ctx.add_model_run("mc/ClientSession.cfg", r)
    if r.invariant_violated:
        print("MODEL-STALE: ClientSession violates %s" % r.invariant_violated)
    r2 = tlc.run_tlc("ClientSession", "mc/ClientSession_two.cfg", work=os.path.join(work, "mc2"), timeout=600)
    ctx.add_model_run("mc/ClientSession_two.cfg (two tasks: the unguarded double handshake)", r2)
    if r2.invariant_violated != ["AtMostOneHandshake"] and set(r2.invariant_violated) != {"AtMostOneHandshake"}:
        print("MODEL-STALE: ClientSession with two tasks violates %s (expected only AtMostOneHandshake)" % r2.invariant_violated)
    g = tlc.run_tlc("GenClientSession", "mc/GenClientSession.cfg", work=os.path.join(work, "gen"), workers=1, timeout=600)
    paths = g.printed("PATH")
    if not paths:
        raise Machinery("GenClientSession printed no path")
    rng = random.Random(ctx.seed + 303)
    scripts = [cd.calls_of(p["h"]) for p in paths]
    if quick and len(scripts) > 1200:
        rng.shuffle(scripts)
        scripts = scripts[:1200]
    cases = []
    for i, s in enumerate(scripts):
        cases.append(("stdio" if i % 2 else "mem", s))
    for s in race_scripts(rng, 150 if quick else 2000):
        cases.append(("mem", s))
    chunks = [cases[i:i + 50] for i in range(0, len(cases), 50)]
    traces = [t for ch in par.pmap(_run, chunks, jobs=16, chunksize=1) for t in ch]
    hung = [i for i, t in enumerate(traces) if t and t[0].get("e") == "Hung"]
    ok = [i for i in range(len(traces)) if i not in set(hung)]
    res = validate.validate("ClientSessionTrace", [traces[i] for i in ok], CONSTS, work=os.path.join(work, "val"), chunk=400)
    ctx.cov["states"] += res["states"]
    ctx.cov["transitions"] += res["transitions"]
    ctx.cov["traces_validated_against_impl"] += len(ok)
    ctx.cov["evaluations"] += len(cases)
    drift = []
    for j in sorted(res["rejected"]):
        i = ok[j]
        k = res["rejected"][j]
        drift.append("run %d (%s) stops at event %d: %s" % (i, cases[i][0], k, json.dumps(traces[i][k - 1] if 0 < k <= len(traces[i]) else None)))
    for j, cls in sorted(res["failed"].items()):
        drift.append("run %d (%s) fails %s" % (ok[j], cases[ok[j]][0], sorted(set(cls))))
    for i in hung:
        drift.append("run %d (%s) never finished" % (i, cases[i][0]))
    ctx.cov["clientsession"] = {"scripts_from_tlc": len(scripts), "race_scripts": len(cases) - len(scripts), "accepted": len(res["accepted"]), "drift": len(drift), "first_drift": drift[:5]}
    for d in drift[:5]:
        print("DRIFT ClientSession (growth specification, not a listed statement): %s" % d[:300])
    if drift:
        ctx.note("ClientSession: %d of %d runs not explained by the growth specification" % (len(drift), len(cases)))
