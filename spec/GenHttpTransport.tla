---- MODULE GenHttpTransport ----
(* the behaviour matrix: every meaningful (kind, behaviour) pair, printed once *)
EXTENDS HttpTransport, Json
GView == n
Emit == n = 0 => PrintT(<<"PATH", ToJson([kind |-> posts'[1].kind, beh |-> posts'[1].beh])>>)
====
