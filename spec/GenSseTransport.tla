---- MODULE GenSseTransport ----
(* schedules from SseTransport: environment actions with their times; printed at Exit or at a *)
(* raised Enter (the behaviour is over) together with what the model expects then             *)
EXTENDS SseTransport, Json
VARIABLE hist
H(a, r) == hist' = Append(hist, [a |-> a, r |-> r, t |-> now])
GInit == Init /\ hist = <<>>
GNext ==
  \/ Tick /\ UNCHANGED hist
  \/ Announce /\ H("Announce", "")
  \/ EstablishFails /\ H("EstablishFails", "")
  \/ Enter /\ H("Enter", entered')
  \/ SendRequest /\ H("SendRequest", "")
  \/ Event /\ H("Event", "")
  \/ EventDropped /\ H("Event", "")
  \/ (\E r \in Replies : PostReply(r) /\ H("PostReply", r))
  \/ Deliver /\ H("Deliver", "")
  \/ WaitTimeout /\ H("WaitTimeout", "")
  \/ ServerMsg /\ H("ServerMsg", "")
  \/ Exit /\ H("Exit", "")
GSpec == GInit /\ [][GNext]_<<vars, hist>>
GView == <<vars>>
Over == (exited' /\ ~exited) \/ (entered' = "raised" /\ entered = "no")
\* where the request's terminal message comes from at the end of the schedule ("none": no terminal yet)
OwnSrc == LET idx == {i \in DOMAIN readStream : readStream[i].id = "own"} IN
          IF idx = {} THEN "none" ELSE readStream[CHOOSE i \in idx : TRUE].src
Emit == Over => PrintT(<<"PATH", ToJson([estab |-> estab, h |-> hist', req |-> req', own |-> CountOwn, src |-> OwnSrc, srv |-> srvSent])>>)
====
