"""Scripted process seam for the stdio transport: anyio.open_process is replaced by a factory
returning a FakeProcess whose stdout is fed chunk by chunk by the schedule and whose stdin records
every byte.  The real StdioClient (reader task, writer task, routing, batch gate, shutdown) runs
unchanged on top of it under the virtual clock."""
import contextlib
import json
import logging
import math

import anyio

from harness import vloop

logging.disable(logging.CRITICAL)


class FakeStdout:
    def __init__(self):
        self._send, self._recv = anyio.create_memory_object_stream(math.inf)
        self.closed = False

    def feed(self, chunk):
        self._send.send_nowait(chunk)

    def eof(self):
        if not self.closed:
            self.closed = True
            self._send.close()

    def __aiter__(self):
        return self

    async def __anext__(self):
        try:
            return await self._recv.receive()
        except (anyio.EndOfStream, anyio.ClosedResourceError):
            raise StopAsyncIteration

    async def receive(self, max_bytes=65536):
        try:
            return await self._recv.receive()
        except anyio.EndOfStream:
            raise anyio.EndOfStream

    async def aclose(self):
        self.eof()


class FakeStdin:
    def __init__(self, log):
        self.data = bytearray()
        self.closed = False
        self.log = log
        self.fail_after = None

    async def send(self, b):
        if self.closed:
            raise anyio.ClosedResourceError()
        self.data.extend(b)
        self.log.append(("stdin", bytes(b)))
        # a pipe write may suspend the writer (slow child): other tasks run before it returns;
        # a write larger than the pipe buffer stays suspended until the child has drained it
        await anyio.sleep(0.005 if len(b) >= 65536 else 0)

    async def aclose(self):
        if not self.closed:
            self.closed = True
            self.log.append(("stdin_closed", b""))


class FakeProcess:
    def __init__(self):
        self.log = []
        self.stdout = FakeStdout()
        self.stdin = FakeStdin(self.log)
        self.stderr = None
        self.returncode = None
        self.pid = 424242
        self.terminated = 0
        self.killed = 0

    def terminate(self):
        self.terminated += 1
        self.returncode = -15
        self.stdout.eof()

    def kill(self):
        self.killed += 1
        self.returncode = -9
        self.stdout.eof()

    async def wait(self):
        return self.returncode

    async def aclose(self):
        pass


@contextlib.contextmanager
def seam():
    """patch anyio.open_process for the duration; yields the list of processes created"""
    procs = []
    argvs = []

    async def fake_open_process(command, **kw):
        p = FakeProcess()
        p.argv = list(command)
        p.kw = kw
        procs.append(p)
        return p

    old = anyio.open_process
    anyio.open_process = fake_open_process
    try:
        yield procs
    finally:
        anyio.open_process = old


def params():
    from chuk_mcp.transports.stdio.parameters import StdioParameters
    return StdioParameters(command="fake-server", args=["--x"])


async def idle(n=3):
    """let every runnable task run: under the virtual loop a 1 ms sleep returns only when
    nothing else is ready"""
    for _ in range(n):
        await anyio.sleep(0.001)


def drain(stream):
    out = []
    while True:
        try:
            out.append(stream.receive_nowait())
        except (anyio.WouldBlock, anyio.EndOfStream, anyio.ClosedResourceError):
            return out


def msg_tag(m):
    """(kind, marker) of a delivered message object"""
    if isinstance(m, list):
        return ["batch", 0]
    d = m.model_dump(exclude_none=True) if hasattr(m, "model_dump") else m
    mk = 0
    for part in ("result", "params"):
        if isinstance(d.get(part), dict) and isinstance(d[part].get("marker"), int):
            mk = d[part]["marker"]
    if isinstance(d.get("error"), dict) and isinstance(d["error"].get("data"), dict):
        mk = d["error"]["data"].get("marker", 0)
    if d.get("method") is not None:
        kind = "req" if d.get("id") is not None else "notif"
    elif d.get("error") is not None:
        kind = "err"
    elif "result" in d and d.get("id") is not None:
        kind = "resp"
    else:
        kind = "junk"
    return [kind, mk]


# ---------------------------------------------------------------------------
# C13 batch gate

def member_json(kind, n):
    if kind == "resp":
        return {"jsonrpc": "2.0", "id": "r%d" % n, "result": {"marker": n}}
    if kind == "notif":
        return {"jsonrpc": "2.0", "method": "notifications/message", "params": {"marker": n, "level": "info", "data": "d"}}
    if kind == "req":
        return {"jsonrpc": "2.0", "id": "q%d" % n, "method": "roots/list", "params": {"marker": n}}
    if kind == "invScalar":
        return 42
    if kind == "invString":
        return "not a message"
    if kind == "invBoth":
        return {"jsonrpc": "2.0", "id": "b%d" % n, "result": {"marker": n}, "error": {"code": 1, "message": "x"}}
    if kind == "invNested":
        return [{"jsonrpc": "2.0", "method": "notifications/message", "params": {"marker": n}}]
    raise ValueError(kind)


VALID = ("resp", "notif", "req")


def run_gate_scripts(scripts):
    """each script: list of steps {op: Handshake, v, via} (first step only) | {op: SetVersion, v: "yyyy-mm-dd"} |
    {op: Batch, members:[kinds]} | {op: Single, kind}.  Returns traces: per step the observation.
    Handshake negotiates v for real: via = "with_initialize" (stdio_client_with_initialize, version
    tracking) or "mcpclient" (MCPClient.initialize over StdioTransport); a scripted server behind the
    seam answers initialize with v."""
    from chuk_mcp.transports.stdio.stdio_client import StdioClient, stdio_client_with_initialize
    from chuk_mcp.transports.stdio.transport import StdioTransport
    from chuk_mcp.client.client import MCPClient

    out = []

    async def answer_initialize(proc, v, stop):
        seen = 0
        while not stop:
            await anyio.sleep(0.001)
            lines = bytes(proc.stdin.data).split(b"\n")[:-1]
            while seen < len(lines):
                try:
                    req = json.loads(lines[seen].decode())
                except Exception:
                    req = {}
                seen += 1
                if isinstance(req, dict) and req.get("method") == "initialize":
                    proc.stdout.feed((json.dumps({"jsonrpc": "2.0", "id": req["id"], "result": {"protocolVersion": v, "capabilities": {}, "serverInfo": {"name": "gate", "version": "1"}}}) + "\n").encode())
                    return

    async def steps(script, client, proc, evs, n0=0):
        n = n0
        for st in script:
            e = dict(st)
            if st["op"] == "SetVersion":
                client.set_protocol_version(st["v"])
                y, m, d = st["v"].split("-")
                e["t"] = [int(y), int(m), int(d)]
            elif st["op"] == "Batch":
                ms = []
                tags = []
                for k in st["members"]:
                    n += 1
                    ms.append(member_json(k, n))
                    tags.append([k, n])
                e["tags"] = tags
                proc.stdout.feed((json.dumps(ms) + "\n").encode())
            elif st["op"] == "Single":
                n += 1
                e["tag"] = [st["kind"], n]
                proc.stdout.feed((json.dumps(member_json(st["kind"], n)) + "\n").encode())
            before = len(proc.log)
            await idle()
            e["delivered"] = [msg_tag(m) for m in drain(client._incoming_recv)]
            e["notified"] = [msg_tag(m) for m in drain(client.notifications)]
            tochild = []
            for what, b in proc.log[before:]:
                if what == "stdin":
                    for line in b.decode().splitlines():
                        try:
                            d = json.loads(line)
                            code = d.get("error", {}).get("code") if isinstance(d, dict) else None
                            tochild.append(["err", code if isinstance(code, int) else 0, 1 if (isinstance(d, dict) and d.get("jsonrpc") == "2.0" and "error" in d and "result" not in d) else 0])
                        except Exception:
                            tochild.append(["garbage", 0, 0])
            e["tochild"] = tochild
            evs.append(e)

    async def one(script):
        evs = []
        with seam() as procs:
            if script and script[0]["op"] == "Handshake":
                hs = script[0]
                y, m, d = hs["v"].split("-")
                ev0 = {"op": "SetVersion", "v": hs["v"], "t": [int(y), int(m), int(d)], "via": hs["via"], "delivered": [], "notified": [], "tochild": []}
                stop = []
                async with anyio.create_task_group() as tg:
                    async def srv():
                        while not procs:
                            await anyio.sleep(0.001)
                        await answer_initialize(procs[0], hs["v"], stop)
                    tg.start_soon(srv)
                    if hs["via"] == "with_initialize":
                        # the context manager hides the client: find it through the process seam
                        import gc
                        async with stdio_client_with_initialize(params(), timeout=2.0, supported_versions=[hs["v"]]) as (rs, ws, init):
                            client = next(o for o in gc.get_objects() if isinstance(o, StdioClient) and o.process is procs[0])
                            before = len(procs[0].log)
                            await idle()
                            drain(client._incoming_recv)
                            drain(client.notifications)
                            evs.append(ev0)
                            await steps(script[1:], client, procs[0], evs)
                    else:
                        transport = StdioTransport(params())
                        async with transport:
                            mc = MCPClient(transport)
                            await mc.initialize()
                            client = transport._client
                            await idle()
                            drain(client._incoming_recv)
                            drain(client.notifications)
                            evs.append(ev0)
                            await steps(script[1:], client, procs[0], evs)
                    stop.append(1)
                    tg.cancel_scope.cancel()
            else:
                client = StdioClient(params())
                async with client:
                    await steps(script, client, procs[0], evs)
        return evs

    async def main():
        for s in scripts:
            out.append(await one(s))

    vloop.run(main)
    return out


# ---------------------------------------------------------------------------
# C05 inbound framing

TEXTS = {
    "ascii": "plain text",
    "b2": "café ü",
    "b3": "sep inside x €",
    "b4": "emoji \U0001F600 \U00010348",
    "nel": "next\u0085line",
    "esc": "line1\nline2\r\ttab \\ \"q\"",     # escaped by the JSON encoder
    "mix": "é \U0001F600\u0085\n",
}

LINE_KINDS = ["shortNotif", "junkLead", "resp", "err", "notif", "req", "junkNotJson", "junkScalar", "junkObject", "junkBoth", "junkArrayScalar", "blank", "junkWrongVersion", "junkNoVersion"]
WF = {"resp", "err", "notif", "req", "shortNotif"}


def line_text(kind, n, text):
    """the text of one line (without terminator) and its abstract description"""
    t = TEXTS[text]
    if kind == "shortNotif":
        return json.dumps({"jsonrpc": "2.0", "method": "n", "params": {"marker": n}}, separators=(",", ":"))
    if kind == "junkLead":
        return {"ascii": "x!", "b2": "é!", "b3": "€!", "b4": "\U0001F600!", "nel": "\u0085é", "esc": "é{", "mix": "é\U0001F600"}[text]     # starts with a multi-byte character
    if kind == "resp":
        o = {"jsonrpc": "2.0", "id": "r%d" % n, "result": {"marker": n, "t": t}}
    elif kind == "err":
        o = {"jsonrpc": "2.0", "id": n, "error": {"code": -32000, "message": t, "data": {"marker": n}}}
    elif kind == "notif":
        o = {"jsonrpc": "2.0", "method": "notifications/message", "params": {"marker": n, "level": "info", "data": t}}
    elif kind == "req":
        o = {"jsonrpc": "2.0", "id": "q%d" % n, "method": "roots/list", "params": {"marker": n, "t": t}}
    elif kind == "junkNotJson":
        return "this is not json {" + t.replace("\n", " ").replace("\r", " ")
    elif kind == "junkScalar":
        o = 42
    elif kind == "junkObject":
        o = {"bad": n, "t": t}
    elif kind == "junkBoth":
        o = {"jsonrpc": "2.0", "id": n, "result": {"marker": n}, "error": {"code": 1, "message": t}}
    elif kind == "junkArrayScalar":
        o = [1, 2]
    elif kind == "blank":
        return "  "
    elif kind == "junkWrongVersion":
        o = {"jsonrpc": "1.0", "id": n, "result": {"marker": n, "t": t}}
    elif kind == "junkNoVersion":
        o = {"id": n, "result": {"marker": n, "t": t}}
    else:
        raise ValueError(kind)
    return json.dumps(o, ensure_ascii=False, separators=(",", ":"))


def build_stream(lines, tail=None):
    """lines: list of (kind, text, term).  Returns (bytes, description for the specification)."""
    data = bytearray()
    ends, wf, notif, kinds = [], [], [], []
    for i, (kind, text, term) in enumerate(lines, 1):
        data += line_text(kind, i, text).encode("utf-8")
        data += b"\r\n" if term == "CRLF" else b"\n"
        ends.append(len(data))
        wf.append(kind in WF)
        notif.append(kind in ("notif", "shortNotif"))
        kinds.append(kind)
    if tail:
        data += line_text(tail[0], len(lines) + 1, tail[1]).encode("utf-8")     # unterminated: not a line
    mid = [p for p in range(1, len(data)) if (data[p] & 0xC0) == 0x80]
    return bytes(data), {"len": len(data), "ends": ends, "wf": wf, "notif": notif, "mid": mid, "kinds": kinds}


async def _settle(client, got, gotn, heard=None):
    """drain until nothing new arrives (the reader blocks on a full read stream)"""
    quiet = 0
    while quiet < 2:
        await idle(2)
        a = drain(client._incoming_recv)
        if heard is not None:
            b = heard[:]
            del heard[:]
        else:
            b = drain(client.notifications)
        got.extend(a)
        gotn.extend(b)
        quiet = quiet + 1 if not a and not b else 0


def run_framing(cases):
    """cases: list of (lines, tail, chunk sizes).  Returns trace records for StdioFramingTrace."""
    from chuk_mcp.transports.stdio.stdio_client import StdioClient

    out = []

    async def one(lines, tail, sizes, listen=False):
        data, desc = build_stream(lines, tail)
        evs = []
        # what each well-formed line says: a delivered message that does not say exactly that is not
        # the line the child wrote (reported as line 0, which no stream has)
        said = {}
        for i, (kind, text, _term) in enumerate(lines, 1):
            if kind in WF:
                said[i] = json.loads(line_text(kind, i, text))

        def mark(m):
            k, mk = msg_tag(m)
            d = m.model_dump(exclude_none=True) if hasattr(m, "model_dump") else m
            return mk if (mk in said and d == said[mk]) or mk not in said else 0
        with seam() as procs:
            client = StdioClient(params())
            async with client:
                proc = procs[0]
                p = 0
                # in some runs an application task is parked on the notification stream while the
                # lines arrive (instead of draining it afterwards)
                heard = [] if listen else None

                async def listener():
                    while True:
                        heard.append(await client.notifications.receive())

                async with anyio.create_task_group() as ltg:
                    if listen:
                        ltg.start_soon(listener)
                        await idle(1)
                    for n in sizes:
                        chunk = data[p:p + n]
                        p += n
                        proc.stdout.feed(chunk)
                        got, gotn = [], []
                        await _settle(client, got, gotn, heard)
                        evs.append({"e": "Chunk", "n": n, "delivered": [mark(m) for m in got], "notified": [mark(m) for m in gotn],
                                    "kinds": [msg_tag(m)[0] for m in got]})
                    proc.stdout.eof()
                    got, gotn = [], []
                    await _settle(client, got, gotn, heard)
                    evs.append({"e": "Eof", "n": 0, "delivered": [mark(m) for m in got], "notified": [mark(m) for m in gotn]})
                    ltg.cancel_scope.cancel()
        rec = dict(desc)
        rec["ev"] = evs
        # only the mid positions that are cut positions matter to the specification
        cutpos = set()
        q = 0
        for n in sizes:
            q += n
            cutpos.add(q)
        rec["mid"] = [m for m in desc["mid"] if m in cutpos]
        return rec

    async def main():
        for k, (lines, tail, sizes) in enumerate(cases):
            out.append(await one(lines, tail, sizes, listen=(k % 3 == 1)))

    vloop.run(main)
    return out


# ---------------------------------------------------------------------------
# C06 outbound framing

OUT_TEXTS = ["plain", "line\nbreak", "cr\rlf\r\n", "sep  \u0085", "nul\x00", "quote\"\\", "astral \U0001F600", "é€", "",
             "del\x7f c1 \x80\x9f", "c0 \x01\x08\x0b\x0c\x1b\x1f", "bom \ufeff zw \u200b nbsp \u00a0"]
OUT_SHAPES = ["typedReq", "typedNotif", "typedResp", "typedErr", "dict", "str", "bigTyped", "badObject", "badDict", "badSurrogateStr"]
OUT_BAD = {"badObject", "badDict", "badSurrogateStr"}


def make_item(shape, n, text, rng):
    """returns (item to put on the write stream, expected decoded value or None)"""
    from chuk_mcp.protocol.messages.json_rpc_message import JSONRPCRequest, JSONRPCNotification, JSONRPCResponse, JSONRPCError

    payload = {"marker": n, "t": text, "nested": {"k": [text, None, 1.5, {"x": text}]}, "nil": None, "key " + text: "v"}
    shown = {"marker": n, "t": text, "nested": {"k": [text, None, 1.5, {"x": text}]}, "key " + text: "v"}
    if shape == "bigTyped":
        big = dict(payload, blob="x" * 70000)
        return JSONRPCRequest(jsonrpc="2.0", id="i%d" % n, method="tools/call", params=big), {"jsonrpc": "2.0", "id": "i%d" % n, "method": "tools/call", "params": big}
    if shape == "typedReq":
        if n % 2:
            # the version member left to the class default
            return JSONRPCRequest(id="i%d" % n, method="tools/call", params=payload), {"jsonrpc": "2.0", "id": "i%d" % n, "method": "tools/call", "params": payload}
        return JSONRPCRequest(jsonrpc="2.0", id="i%d" % n, method="tools/call", params=payload), {"jsonrpc": "2.0", "id": "i%d" % n, "method": "tools/call", "params": payload}
    if shape == "typedNotif":
        if n % 2:
            return JSONRPCNotification(jsonrpc="2.0", method="notifications/x", params=None), {"jsonrpc": "2.0", "method": "notifications/x"}
        return JSONRPCNotification(jsonrpc="2.0", method="notifications/x", params=payload), {"jsonrpc": "2.0", "method": "notifications/x", "params": payload}
    if shape == "typedResp":
        if n % 2 == 0:
            return JSONRPCResponse(id=n, result=payload), {"jsonrpc": "2.0", "id": n, "result": payload}
        return JSONRPCResponse(jsonrpc="2.0", id=n, result=payload), {"jsonrpc": "2.0", "id": n, "result": payload}
    if shape == "typedErr":
        e = {"code": -32000 - n, "message": text, "data": payload}
        return JSONRPCError(jsonrpc="2.0", id="e%d" % n, error=e), {"jsonrpc": "2.0", "id": "e%d" % n, "error": e}
    if shape == "dict":
        d = {"jsonrpc": "2.0", "id": n, "method": "m/" + text, "params": payload}
        if n % 3 == 1:
            # JSON values the fast encoder refuses and the standard one writes: integers beyond 64
            # bits, nesting deeper than 254 levels
            deep = cur = []
            for _ in range(300):
                nxt = []
                cur.append(nxt)
                cur = nxt
            d = {"jsonrpc": "2.0", "id": n, "method": "m/" + text, "params": dict(payload, huge=2**64 + n, neg=-(2**70), deep=deep)}
        return d, d
    if shape == "str":
        d = {"jsonrpc": "2.0", "id": n, "result": shown}
        return json.dumps(d, ensure_ascii=rng.random() < 0.5, separators=(",", ":")), d
    if shape == "badObject":
        return object(), None
    if shape == "badDict":
        return {"jsonrpc": "2.0", "id": n, "params": {"o": object(), "marker": n}}, None
    if shape == "badSurrogateStr":
        return '{"jsonrpc":"2.0","id":%d,"result":{"t":"\ud800"}}' % n, None
    raise ValueError(shape)


def _omit_none_top(x):
    """typed messages are written with exclude_none: absent optional members are omitted -
    nested nulls inside params/result must survive"""
    return x


def run_out(cases, seed=0):
    """cases: list of scripts; script = list of steps: {"op": "Accept", "shape", "text"} | {"op": "CloseWrite"} |
    {"op": "Idle"}.  Returns event lists for StdioOutTrace."""
    import random
    from chuk_mcp.transports.stdio.stdio_client import StdioClient

    out = []

    async def one(script, rng):
        evs = []
        expected = {}
        with seam() as procs:
            client = StdioClient(params())
            async with client:
                proc = procs[0]
                seen_bytes = 0
                n = 0

                def harvest():
                    nonlocal seen_bytes
                    data = bytes(proc.stdin.data)
                    new = data[seen_bytes:]
                    # complete lines only
                    while b"\n" in new:
                        line, new = new.split(b"\n", 1)
                        seen_bytes += len(line) + 1
                        raw = line + b"\n"
                        ok = b"\r" not in line
                        idx = 0
                        try:
                            val = json.loads(line.decode("utf-8"))
                            mk = None
                            if isinstance(val, dict):
                                for part in ("params", "result"):
                                    if isinstance(val.get(part), dict) and "marker" in val[part]:
                                        mk = val[part]["marker"]
                                if mk is None and isinstance(val.get("error"), dict):
                                    mk = (val["error"].get("data") or {}).get("marker")
                                if mk is None and val.get("method") == "notifications/x":
                                    mk = next((k for k, v in expected.items() if v == val and k not in used), None)
                            if mk in expected and mk not in used:
                                idx = mk
                                used.add(mk)
                                ok = ok and val == expected[mk]
                            elif isinstance(val, dict) and isinstance(val.get("error"), dict) and val["error"].get("code") == -32600 and "batching" in str(val["error"].get("message", "")).lower():
                                idx = 0          # the batch rejection written by the reader task
                                ok = ok and val.get("jsonrpc") == "2.0"
                            else:
                                ok = False
                        except Exception:
                            ok = False
                        evs.append({"e": "Line", "idx": idx, "ok": bool(ok)} if idx != 0 or not ok else {"e": "Rejection", "idx": 0, "ok": True})
                    if proc.stdin.closed and not any(e["e"] == "StdinClosed" for e in evs):
                        evs.append({"e": "StdinClosed"})

                used = set()
                for st in script:
                    if st["op"] == "Accept":
                        n += 1
                        item, exp = make_item(st["shape"], n, st["text"], rng)
                        if exp is not None:
                            expected[n] = exp
                        evs.append({"e": "Accept", "shape": st["shape"]})
                        if st.get("idle", True):
                            await client._outgoing_send.send(item)
                        else:
                            # burst: queue without letting the writer task run in between
                            try:
                                client._outgoing_send.send_nowait(item)
                            except anyio.WouldBlock:
                                await client._outgoing_send.send(item)
                    elif st["op"] == "CloseWrite":
                        evs.append({"e": "CloseWrite"})
                        await client._outgoing_send.aclose()
                    elif st["op"] == "ChildBatch":
                        # the child sends a batch at a version without batching: the READER task
                        # answers with an error line written straight to the child's stdin
                        client.set_protocol_version("2025-06-18")
                        await anyio.sleep(0.001)       # the writer task is already inside its write
                        proc.stdout.feed(b'[{"jsonrpc":"2.0","method":"notifications/message","params":{}}]\n')
                    if st["op"] != "Accept" or st.get("idle", True):
                        await idle()
                        harvest()
                await anyio.sleep(0.1)       # slow (large) writes finish
                await idle()
                harvest()
                evs.append({"e": "End"})
        return evs

    async def main():
        rng = random.Random(seed)
        for s in cases:
            out.append(await one(s, rng))

    vloop.run(main)
    return out



def run_frames(texts):
    """C17: every encoded text, written as one line, must come out of the real stdio reader as
    exactly one message.  texts: list of JSON texts of JSON-RPC notifications.  Returns the list of
    dumps of what was delivered."""
    from chuk_mcp.transports.stdio.stdio_client import StdioClient

    out = []

    async def main():
        with seam() as procs:
            client = StdioClient(params())
            async with client:
                proc = procs[0]
                for i in range(0, len(texts), 40):
                    chunk = "".join(t + "\n" for t in texts[i:i + 40]).encode("utf-8")
                    proc.stdout.feed(chunk)
                    got, gotn = [], []
                    await _settle(client, got, gotn)
                    out.extend(m.model_dump(exclude_none=True) if hasattr(m, "model_dump") else m for m in got)

    vloop.run(main)
    return out



# ---------------------------------------------------------------------------
# routing (growth item, checked with C05): legacy per-request streams never steal messages

ROUTE_IDS = {"a": "a", "7": 7, "b": "b"}      # the model's id "7" is the INTEGER 7 on the wire (str(id) is the key)


def run_routing(scripts):
    """script steps: {op: Register, id} | {op: Feed, kind, id}.  Returns event lists."""
    from chuk_mcp.transports.stdio.stdio_client import StdioClient

    out = []

    async def one(script):
        evs = []
        n = 0
        with seam() as procs:
            client = StdioClient(params())
            async with client:
                proc = procs[0]
                regs = {}
                for st in script:
                    e = dict(st)
                    if st["op"] == "Register":
                        regs[st["id"]] = client.new_request_stream(str(ROUTE_IDS[st["id"]]))
                    else:
                        n += 1
                        rid = ROUTE_IDS.get(st["id"])
                        if st["kind"] == "resp":
                            m = {"jsonrpc": "2.0", "id": rid, "result": {"marker": n}}
                        elif st["kind"] == "req":
                            m = {"jsonrpc": "2.0", "id": rid, "method": "roots/list", "params": {"marker": n}}
                        else:
                            m = {"jsonrpc": "2.0", "method": "notifications/message", "params": {"marker": n, "level": "info", "data": "x"}}
                        proc.stdout.feed((json.dumps(m) + "\n").encode())
                        await idle()
                        e["main"] = [msg_tag(x)[1] for x in drain(client._incoming_recv)]
                        e["notify"] = [msg_tag(x)[1] for x in drain(client.notifications)]
                        leg = []
                        if st["id"] in regs:
                            leg = [msg_tag(x)[1] for x in drain(regs[st["id"]])]
                        e["legacy"] = leg
                        # nothing may appear on the OTHER registered streams
                        e["stray"] = sum(len(drain(r)) for k, r in regs.items() if k != st["id"])
                    evs.append(e)
        return evs

    async def main():
        for sc in scripts:
            out.append(await one(sc))

    vloop.run(main)
    return out
