"""C07 driver: every discovered helper is called for real and answered with an error response
of a chosen code and shape; what the call did is recorded."""
import math
import types

import anyio

from harness import vloop
from harness.drivers import helpers

SHAPES = ["msg", "msg+data-obj", "msg+data-str", "msg+data-list", "msg+data-num", "msg+data-null", "nomsg"]


def _err_obj(shape, code, text):
    e = {"code": code}
    if shape != "nomsg":
        e["message"] = text
    if shape == "msg+data-obj":
        e["data"] = {"why": [1, None]}
    elif shape == "msg+data-str":
        e["data"] = "details é"
    elif shape == "msg+data-list":
        e["data"] = [1, "x"]
    elif shape == "msg+data-num":
        e["data"] = 1.5
    elif shape == "msg+data-null":
        e["data"] = None
    return e


class _Raw:
    """An error response object of a shape the typed classes refuse to build (no message)."""

    def __init__(self, id, error):
        self.jsonrpc = "2.0"
        self.id = id
        self.error = error
        self.result = None

    def model_dump(self, **kw):
        return {"jsonrpc": "2.0", "id": self.id, "error": self.error}


def code_rec(code):
    if -(2**31) < code < 2**31:
        return {"huge": False, "v": code}
    return {"huge": True, "v": 0}


def run_cases(cases):
    """cases: list of (helper name, code, shape). Returns list of case records for TLC."""
    from chuk_mcp.protocol.messages.json_rpc_message import JSONRPCError
    from chuk_mcp.protocol.types import errors as E

    fns = helpers.discover()
    out = []

    async def one(hname, code, shape):
        f = fns[hname]
        send_r, recv_r = anyio.create_memory_object_stream(math.inf)
        text = "boom %d" % (code % 1000)

        class Wire:
            def __init__(self):
                self.n = 0

            async def send(self, msg):
                d = msg.model_dump(exclude_none=True) if hasattr(msg, "model_dump") else msg
                if "id" in d and "method" in d:
                    self.n += 1
                    eo = _err_obj(shape, code, text)
                    if shape == "nomsg":
                        send_r.send_nowait(_Raw(d["id"], eo))
                    else:
                        send_r.send_nowait(JSONRPCError(jsonrpc="2.0", id=d["id"], error=eo))

        kw = helpers.kwargs_for(f)
        if "timeout" in __import__("inspect").signature(f).parameters:
            kw["timeout"] = 5.0
        obs = {"kind": "returned", "cls": "", "codeOk": False, "msgOk": False, "value": False}
        try:
            res = await f(recv_r, Wire(), **kw)
            obs["value"] = res if isinstance(res, bool) else True
            obs["cls"] = type(res).__name__
        except (E.RetryableError, E.NonRetryableError) as e:
            obs["kind"] = "raised"
            obs["cls"] = "RetryableError" if type(e) is E.RetryableError else ("NonRetryableError" if type(e) is E.NonRetryableError else type(e).__name__)
            obs["codeOk"] = e.code == code and type(e.code) is int
            obs["msgOk"] = (text in str(e)) if shape != "nomsg" else True
        except E.JSONRPCError as e:
            obs["kind"] = "raised"
            obs["cls"] = type(e).__name__
            obs["codeOk"] = e.code == code or isinstance(e, E.VersionMismatchError)
            obs["msgOk"] = True
        except BaseException as e:  # noqa
            if isinstance(e, (KeyboardInterrupt, SystemExit)):
                raise
            obs["kind"] = "raised"
            obs["cls"] = type(e).__name__
        return obs

    async def main():
        for hname, code, shape in cases:
            obs = await one(hname, code, shape)
            out.append({"helper": hname, "fn": False, "code": code_rec(code), "shape": shape, "codestr": str(code), "obs": obs})

    vloop.run(main)
    return out


def run_fn_cases(codes):
    """direct calls of is_retryable_error"""
    from chuk_mcp.protocol.types import errors as E

    out = []
    for code in codes:
        obs = {"kind": "returned", "cls": "", "codeOk": True, "msgOk": True, "value": False}
        try:
            v = E.is_retryable_error(code)
            obs["value"] = bool(v)
            if not isinstance(v, bool):
                obs["kind"] = "nonbool"
        except BaseException as e:  # noqa
            obs["kind"] = "raised"
            obs["cls"] = type(e).__name__
        out.append({"helper": "is_retryable_error", "fn": True, "code": code_rec(code), "shape": "", "codestr": str(code), "obs": obs})
    return out


def extract_sets():
    """The sets the specification's constants are bound to, read from the tree."""
    from chuk_mcp.protocol.types import errors as E

    named = {}
    for n, v in vars(E).items():
        if n.isupper() and isinstance(v, int) and not isinstance(v, bool) and not n.endswith(("_START", "_END")):
            named[n] = v
    fns = helpers.discover()
    return {
        "NonRetryable": sorted(E.NON_RETRYABLE_ERRORS),
        "Retryable": sorted(E.RETRYABLE_ERRORS),
        "Named": sorted(set(named.values())),
        "Helpers": sorted(fns),
        "BoolHelpers": sorted(n for n, f in fns.items() if helpers.returns_bool(f)),
        "InitHelpers": sorted(n for n in fns if "initialize" in n),
    }
