"""C03 / C04 driver: the real send_initialize(_with_client_tracking) against a scripted responder
or against the real ProtocolHandler, under the virtual clock."""
import logging
import math

import anyio

from harness import vloop

logging.disable(logging.CRITICAL)

CODES = {"invalidParams": -32602, "versionCode": -32008, "internal": -32603, "other": -31999}


def run_cases(cases):
    """cases: list of {sup, pref, tracked, a | paired:True}.  Returns trace records."""
    from chuk_mcp.protocol.messages.initialize.send_messages import (
        send_initialize,
        send_initialize_with_client_tracking,
    )
    from chuk_mcp.protocol.messages.json_rpc_message import JSONRPCResponse, JSONRPCError, parse_message
    from chuk_mcp.protocol.types.errors import VersionMismatchError, RetryableError, NonRetryableError
    from chuk_mcp.transports.stdio.stdio_client import StdioClient
    from chuk_mcp.transports.stdio.parameters import StdioParameters
    from chuk_mcp.server.server import MCPServer

    out = []

    async def one(case):
        evs = []
        sup = list(case["sup"])
        pref = case["pref"]
        send_r, recv_r = anyio.create_memory_object_stream(math.inf)
        server = MCPServer("paired", "1.0") if case.get("paired") else None
        new_sid = [None]

        class Wire:
            async def send(self, msg):
                d = msg.model_dump(exclude_none=True) if hasattr(msg, "model_dump") else msg
                m = d.get("method")
                if m == "initialize":
                    p = d.get("params") or {}
                    ok = d.get("jsonrpc") == "2.0" and "id" in d and isinstance(p.get("capabilities"), dict) and isinstance(p.get("clientInfo"), dict)
                    evs.append({"e": "Propose", "v": str(p.get("protocolVersion")), "ok": bool(ok)})
                    if server is not None:
                        resp, sid = await server.protocol_handler.handle_message(parse_message(d), None)
                        new_sid[0] = sid
                        rd = resp.model_dump(exclude_none=True)
                        res = rd.get("result")
                        if isinstance(res, dict) and "protocolVersion" in res:
                            evs.append({"e": "Answer", "a": {"k": "version", "v": str(res["protocolVersion"])}})
                        else:
                            evs.append({"e": "Answer", "a": {"k": "rpcError", "cls": "other", "mentions": False}})
                        send_r.send_nowait(parse_message(rd))
                        return
                    a = case["a"]
                    evs.append({"e": "Answer", "a": a})
                    rid = d["id"]
                    if a["k"] == "version":
                        res = {"protocolVersion": a["v"], "capabilities": {}, "serverInfo": {"name": "s", "version": "1"}}
                        send_r.send_nowait(JSONRPCResponse(jsonrpc="2.0", id=rid, result=res))
                    elif a["k"] == "malformed":
                        if a["why"] == "noVersion":
                            res = {"capabilities": {}, "serverInfo": {"name": "s", "version": "1"}}
                        elif a["why"] == "noCapabilities":
                            res = {"protocolVersion": sup[0], "serverInfo": {"name": "s", "version": "1"}}
                        else:
                            res = "nope"
                        send_r.send_nowait(JSONRPCResponse(jsonrpc="2.0", id=rid, result=res))
                    elif a["k"] == "rpcError":
                        msgtxt = "Unsupported protocol version: x" if a["mentions"] else "bad thing happened"
                        send_r.send_nowait(JSONRPCError(jsonrpc="2.0", id=rid, error={"code": CODES[a["cls"]], "message": msgtxt}))
                    # silence: nothing
                elif m == "notifications/initialized":
                    if case.get("broken"):
                        # the peer no longer reads the client's stream
                        raise anyio.BrokenResourceError()
                    evs.append({"e": "Initialized"})
                    if server is not None:
                        await server.protocol_handler.handle_message(parse_message(d), new_sid[0])
                else:
                    evs.append({"e": "Other", "m": str(m)})

        kw = {"timeout": 2.0, "supported_versions": sup}
        if pref != "none":
            kw["preferred_version"] = pref
        client = None
        try:
            if case["tracked"]:
                client = StdioClient(StdioParameters(command="true", args=[]))
                res = await send_initialize_with_client_tracking(recv_r, Wire(), client=client, **kw)
            else:
                res = await send_initialize(recv_r, Wire(), **kw)
            evs.append({"e": "Outcome", "kind": "ok", "version": str(res.protocolVersion)})
        except VersionMismatchError:
            evs.append({"e": "Outcome", "kind": "VersionMismatch", "version": ""})
        except TimeoutError:
            evs.append({"e": "Outcome", "kind": "Timeout", "version": ""})
        except (RetryableError, NonRetryableError):
            evs.append({"e": "Outcome", "kind": "JsonRpcError", "version": ""})
        except Exception as e:
            evs.append({"e": "Outcome", "kind": "Exception", "version": "", "exc": type(e).__name__})
        if client is not None:
            info = client.get_batching_info()
            state = "unset" if info["protocol_version"] is None else ("on" if info["batching_enabled"] else "off")
            evs.append({"e": "Batching", "state": state})
        if server is not None and new_sid[0]:
            s = server.protocol_handler.session_manager.get_session(new_sid[0])
            evs.append({"e": "Session", "version": str(s.protocol_version) if s else "none"})
        return {"sup": sup, "pref": pref, "tracked": bool(case["tracked"]), "broken": bool(case.get("broken")), "ev": evs}

    async def main():
        for c in cases:
            out.append(await one(c))

    vloop.run(main)
    return out


def run_server_cases(values):
    """C04 server side: handle initialize requests carrying each value (or ABSENT); returns
    [{req, answered, session}] with everything as strings."""
    import asyncio
    from chuk_mcp.server.server import MCPServer
    from chuk_mcp.protocol.messages.json_rpc_message import parse_message, JSONRPCRequest

    srv = MCPServer("c04", "1.0")
    ph = srv.protocol_handler
    loop = asyncio.new_event_loop()
    out = []
    for i, v in enumerate(values):
        params = {"clientInfo": {"name": "c", "version": "1"}, "capabilities": {}}
        if v != "ABSENT":
            params["protocolVersion"] = v
        body = {"jsonrpc": "2.0", "id": i, "method": "initialize", "params": params}
        msg = JSONRPCRequest.model_validate(body) if i % 2 else parse_message(body)
        rec = {"req": v if isinstance(v, str) else "%s:%r" % (type(v).__name__, v), "isstr": isinstance(v, str), "raised": False, "answered": "", "session": "", "iserr": False}
        try:
            resp, sid = loop.run_until_complete(ph.handle_message(msg, None))
            d = resp.model_dump(exclude_none=True) if resp is not None else {}
            if isinstance(d.get("result"), dict):
                a = d["result"].get("protocolVersion")
                rec["answered"] = a if isinstance(a, str) else "%s:%r" % (type(a).__name__, a)
                s = ph.session_manager.get_session(sid) if sid else None
                sv = s.protocol_version if s else None
                rec["session"] = sv if isinstance(sv, str) else "%s:%r" % (type(sv).__name__, sv)
            else:
                rec["iserr"] = True
        except Exception as e:
            rec["raised"] = True
            rec["answered"] = type(e).__name__
        out.append(rec)
        ph.session_manager.sessions.clear()
    loop.close()
    return out
