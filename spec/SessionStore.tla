---------------------------- MODULE SessionStore ----------------------------
(***************************************************************************)
(* Server-side session bookkeeping (C19):                                  *)
(*   chuk_mcp/server/session/memory.py   InMemorySessionManager            *)
(*   chuk_mcp/server/protocol_handler.py _handle_initialize, handle_message*)
(*                                                                         *)
(* The store is a map from unique ids to timestamped records.  Session ids *)
(* are abstracted to 1, 2, 3, ... in creation order (fresh by construction *)
(* in the model; the conformance harness renames the real uuids by first   *)
(* appearance and so checks freshness of the real ones).  One action per   *)
(* public operation; ret is the operation's return value.                  *)
(***************************************************************************)
EXTENDS Naturals, FiniteSets, TLC

CONSTANTS MaxSid,      \* size of the session universe
          MaxClock,    \* bound on the clock
          Ages,        \* max_age values tried
          Clients,     \* abstract clientInfo values
          Versions,    \* abstract protocol versions
          ServerSup,   \* versions the server supports (for HandleInitialize)
          Latest       \* the server's latest version

VARIABLES store, clock, nextSid, ret
vars == <<store, clock, nextSid, ret>>

Rec(client, ver, t) == [client |-> client, version |-> ver, created |-> t, last |-> t]
Sids == 1..MaxSid
NoRet == [k |-> "none"]

Init == store = <<>> /\ clock = 0 /\ nextSid = 1 /\ ret = NoRet

Dom == DOMAIN store
Put(s, r) == [x \in Dom \cup {s} |-> IF x = s THEN r ELSE store[x]]
Drop(S) == [x \in Dom \ S |-> store[x]]

Create(c, v) ==
  /\ nextSid <= MaxSid
  /\ store' = Put(nextSid, Rec(c, v, clock))
  /\ ret' = [k |-> "sid", v |-> nextSid]
  /\ nextSid' = nextSid + 1
  /\ UNCHANGED clock

Get(s) ==
  /\ ret' = IF s \in Dom THEN [k |-> "rec", v |-> store[s]] ELSE [k |-> "null"]
  /\ UNCHANGED <<store, clock, nextSid>>

Touch(s) ==
  /\ store' = IF s \in Dom THEN [store EXCEPT ![s].last = clock] ELSE store
  /\ ret' = [k |-> "bool", v |-> s \in Dom]
  /\ UNCHANGED <<clock, nextSid>>

Delete(s) ==
  /\ store' = Drop({s})
  /\ ret' = [k |-> "bool", v |-> s \in Dom]
  /\ UNCHANGED <<clock, nextSid>>

Expired(a) == {s \in Dom : clock - store[s].last > a}     \* idle for LONGER than the limit
Cleanup(a) ==
  /\ store' = Drop(Expired(a))
  /\ ret' = [k |-> "int", v |-> Cardinality(Expired(a))]
  /\ UNCHANGED <<clock, nextSid>>

\* list_sessions returns a copy: adding to / removing from it leaves the store alone
ListAndMutate ==
  /\ ret' = [k |-> "map", v |-> store]
  /\ UNCHANGED <<store, clock, nextSid>>

Count ==
  /\ ret' = [k |-> "int", v |-> Cardinality(Dom)]
  /\ UNCHANGED <<store, clock, nextSid>>

Clear ==
  /\ store' = <<>>
  /\ ret' = [k |-> "int", v |-> Cardinality(Dom)]
  /\ UNCHANGED <<clock, nextSid>>

Tick(d) ==
  /\ clock + d <= MaxClock
  /\ clock' = clock + d
  /\ UNCHANGED <<store, nextSid, ret>>

\* initialize through the protocol handler (handle_message with an optional session id):
\* the carried session, if it exists, has its activity refreshed like for any message, and
\* exactly one NEW session is created recording the client's info and the ANSWERED version -
\* the requested one if the server supports it, otherwise some version the server supports
NoSid == 0
HandleInitialize(c, v, s, a) ==
  /\ nextSid <= MaxSid
  /\ a \in ServerSup /\ (v \in ServerSup => a = v)
  /\ LET touched == IF s \in Dom THEN [store EXCEPT ![s].last = clock] ELSE store IN
     store' = [x \in Dom \cup {nextSid} |-> IF x = nextSid THEN Rec(c, a, clock) ELSE touched[x]]
  /\ ret' = [k |-> "init", sid |-> nextSid, version |-> a]
  /\ nextSid' = nextSid + 1
  /\ UNCHANGED clock

\* any request / notification with a method, handled with a session id, refreshes that
\* session's activity (registered or not, failing or not); a message without a method does not
HandleRequest(s, hasMethod) ==
  /\ store' = IF s \in Dom /\ hasMethod THEN [store EXCEPT ![s].last = clock] ELSE store
  /\ ret' = [k |-> "handled"]
  /\ UNCHANGED <<clock, nextSid>>

Next ==
  \/ \E c \in Clients, v \in Versions : Create(c, v)
  \/ \E c \in Clients, v \in Versions, s \in Sids \cup {NoSid}, a \in ServerSup : HandleInitialize(c, v, s, a)
  \/ \E s \in Sids : Get(s) \/ Touch(s) \/ Delete(s)
  \/ \E s \in Sids, m \in BOOLEAN : HandleRequest(s, m)
  \/ \E a \in Ages : Cleanup(a)
  \/ ListAndMutate \/ Count \/ Clear
  \/ \E d \in 1..2 : Tick(d)

Spec == Init /\ [][Next]_vars

-----------------------------------------------------------------------------
ViewNoRet == <<store, clock, nextSid>>
TypeOK ==
  /\ Dom \subseteq 1..(nextSid - 1)
  /\ \A s \in Dom : store[s].created <= store[s].last /\ store[s].last <= clock
UniqueIds == [][\A s \in Dom : s \in DOMAIN store' => store'[s].created = store[s].created /\ store'[s].client = store[s].client]_vars
FreshIds == [][nextSid' >= nextSid /\ (DOMAIN store') \ Dom \subseteq {nextSid}]_vars
\* expiry removes exactly the sessions idle for longer than the limit and nothing else
CleanupExact ==
  [][\A a \in Ages : Cleanup(a) =>
        /\ DOMAIN store' = {s \in Dom : clock - store[s].last <= a}
        /\ \A s \in DOMAIN store' : store'[s] = store[s]]_vars
=============================================================================
