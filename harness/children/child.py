"""Scripted MCP child for the stdio lifecycle checks.  argv[1] = behaviour.
Behaviours: well_behaved | exit_at:<k> | ignore_term | no_read | flood | close_stdout | close_stdin | slow_start
Every behaviour that reads stdin answers initialize and ping.  'ready' notification is written once the
behaviour is armed (signal handlers installed), so the parent can wait for readiness."""
import json
import os
import signal
import sys
import time

beh = sys.argv[1] if len(sys.argv) > 1 else "well_behaved"


def out(obj):
    sys.stdout.write(json.dumps(obj) + "\n")
    sys.stdout.flush()


def ready():
    out({"jsonrpc": "2.0", "method": "notifications/message", "params": {"level": "info", "data": "ready", "marker": 0}})


def answer(msg):
    if "id" not in msg:
        return
    m = msg.get("method")
    if m == "initialize":
        out({"jsonrpc": "2.0", "id": msg["id"], "result": {"protocolVersion": msg["params"]["protocolVersion"], "capabilities": {}, "serverInfo": {"name": "child", "version": "1"}}})
    else:
        out({"jsonrpc": "2.0", "id": msg["id"], "result": {"marker": 1, "echo": m}})


if beh == "slow_start":
    time.sleep(0.5)
if beh == "ignore_term":
    signal.signal(signal.SIGTERM, signal.SIG_IGN)
if beh.startswith("exit_at:") and beh.split(":")[1] == "0":
    sys.exit(0)
ready()
if beh == "no_read":
    while True:
        time.sleep(1)
if beh == "close_stdout":
    os.close(1)
    while True:
        time.sleep(1)
if beh == "close_stdin":
    os.close(0)
    while True:
        time.sleep(1)
if beh == "flood":
    import threading

    def flood():
        n = 0
        try:
            while True:
                n += 1
                out({"jsonrpc": "2.0", "method": "notifications/message", "params": {"level": "info", "data": "x" * 200, "marker": n}})
        except Exception:
            os._exit(0)
    threading.Thread(target=flood, daemon=True).start()
k = int(beh.split(":")[1]) if beh.startswith("exit_at:") else None
seen = 0
for line in sys.stdin:
    line = line.strip()
    if not line:
        continue
    try:
        msg = json.loads(line)
    except Exception:
        continue
    if isinstance(msg, dict) and "id" in msg and "method" in msg:
        seen += 1
        if k is not None and seen == k:
            os._exit(3)          # dies with the request unanswered
    try:
        answer(msg)
    except Exception:
        pass
    if k is not None and seen + 1 == k + 1 and k == seen + 0 and False:
        pass
if beh == "ignore_term":
    # stdin closed: keep running, ignoring SIGTERM, until killed
    while True:
        time.sleep(1)
