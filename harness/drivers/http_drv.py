"""C11 driver: the real http_client / StreamableHTTPTransport against a scripted endpoint."""
import json
import logging
import random

import anyio
import httpx

from harness import vloop
from harness.drivers import httpx_seam
from harness.drivers.stdio_drv import idle, drain

logging.disable(logging.CRITICAL)

TEXT = "\u00e9 \U0001F600 \u2028 \u2029 \u0085 end"


class ChunkedBody(httpx.AsyncByteStream):
    """a response body that arrives in pieces (some boundaries inside multi-byte characters)"""

    def __init__(self, content, seed):
        rng = random.Random(seed)
        cuts = set()
        if len(content) > 1:
            inside = [i for i in range(1, len(content)) if 0x80 <= content[i] <= 0xBF]
            if inside:
                cuts.update(rng.sample(inside, min(len(inside), 2)))
            cuts.update(rng.randrange(1, len(content)) for _ in range(rng.randrange(0, 3)))
        cuts = sorted(cuts)
        self.parts = [content[a:b] for a, b in zip([0] + cuts, cuts + [len(content)])]

    async def __aiter__(self):
        for p in self.parts:
            yield p
            await anyio.sleep(0)

    async def aclose(self):
        pass


IDS = {"str": "req-%d", "int": 1000, "int0": 0, "strEmpty": "", "strDigit": "77"}


def concrete_id(idc, i):
    v = IDS[idc]
    if idc == "str":
        return v % i
    if idc == "int":
        return v + i
    return v


def sse_encode(msgs, enc):
    """msgs: list of JSON texts; returns the event-stream text in the given (conformant) encoding"""
    out = []
    for k, m in enumerate(msgs):
        if enc == "pingFirst":
            # an event of another type first; the message events that follow carry no event field,
            # so their type is the default ("message") again
            ev = ("event: ping\ndata: {}\n\n" if k == 0 else "") + "data: %s\n\n" % m
        elif enc == "noEvent":
            ev = "data: %s\n\n" % m
        elif enc == "noSpace":
            ev = "event:message\ndata:%s\n\n" % m
        elif enc == "comments":
            ev = ": keep-alive\nid: %d\nretry: 1000\nevent: message\n: another comment\ndata: %s\n\n" % (k, m)
        elif enc == "multiData":
            # the JSON text split after the first comma: two data lines are joined by LF
            cut = m.index(",") + 1
            ev = "event: message\ndata: %s\ndata: %s\n\n" % (m[:cut], m[cut:])
        else:
            ev = "event: message\ndata: %s\n\n" % m
        out.append(ev)
    text = "".join(out)
    if enc == "crlf":
        text = text.replace("\n", "\r\n")
    if enc == "cr":
        text = text.replace("\n", "\r")
    return text


def build_response(beh, req_id, marker, chunk_seed=None, foreign_id="someone-else"):
    """(httpx.Response | exception to raise)"""
    if beh["exc"] == "connect":
        return httpx.ConnectError("All connection attempts failed")
    if beh["exc"] == "timeout":
        return httpx.ReadTimeout("timed out")
    if beh["exc"] == "protocol":
        return httpx.RemoteProtocolError("Server disconnected without sending a response.")
    headers = {}
    if beh["ctype"] == "json":
        headers["content-type"] = "application/json"
    elif beh["ctype"] == "sse":
        headers["content-type"] = "text/event-stream; charset=utf-8"
    elif beh["ctype"] == "other":
        headers["content-type"] = "text/plain"
    if beh["sess"] != "absent":
        headers["mcp-session-id"] = beh["sess"]
    result = {"marker": marker, "text": TEXT, "nil": None}
    resp = {"jsonrpc": "2.0", "id": req_id, "result": result}
    notif = lambda k: {"jsonrpc": "2.0", "method": "notifications/message", "params": {"marker": marker + k, "level": "info", "data": "d"}}
    body = beh["body"]
    msgs = None
    if body == "resp":
        msgs = [resp]
    elif body == "respNonObj":
        msgs = [{"jsonrpc": "2.0", "id": req_id, "result": ["marker", marker]}]
    elif body == "errResp":
        msgs = [{"jsonrpc": "2.0", "id": req_id, "error": {"code": -32001, "message": "nope", "data": {"marker": marker}}}]
    elif body == "batch":
        msgs = [notif(1), resp]
    elif body == "notifsThenResp":
        msgs = [notif(1), notif(2), resp]
    elif body == "respThenNotif":
        msgs = [resp, notif(1)]
    elif body == "wrongId":
        # the id of a request this client has not sent yet (it may well send it next)
        msgs = [{"jsonrpc": "2.0", "id": foreign_id, "result": result}]
    elif body == "errNullId":
        msgs = [{"jsonrpc": "2.0", "id": None, "error": {"code": -32600, "message": "bad request", "data": {"marker": marker}}}]
    elif body == "errOtherId":
        msgs = [{"jsonrpc": "2.0", "id": 99, "error": {"code": -32600, "message": "bad request", "data": {"marker": marker}}}]
    if msgs is not None:
        texts = [json.dumps(m, ensure_ascii=False, separators=(",", ":")) for m in msgs]
        if beh["ctype"] == "sse":
            content = sse_encode(texts, beh["enc"]).encode("utf-8")
        elif body == "batch" or len(msgs) > 1:
            content = ("[" + ",".join(texts) + "]").encode("utf-8")
        else:
            content = texts[0].encode("utf-8")
    elif body == "empty":
        content = b""
    elif body == "truncated":
        t = json.dumps(resp, ensure_ascii=False, separators=(",", ":"))
        content = ("event: message\ndata: %s\n" % t).encode("utf-8") if beh["ctype"] == "sse" else t[: len(t) // 2].encode("utf-8")
    elif body == "nonJson":
        content = b"<html>oops</html>"
    elif body == "nonUtf8":
        content = (b'{"jsonrpc":"2.0","id":' + json.dumps(req_id).encode() + b',"result":{"t":"\xff\xfe"}}') if beh["ctype"] != "sse" else b"event: message\ndata: \xff\xfe{\n\n"
    elif body == "text":
        content = b"Accepted"
    else:
        raise ValueError(body)
    if chunk_seed is not None and content:
        return httpx.Response(beh["status"], headers=headers, stream=ChunkedBody(content, chunk_seed))
    return httpx.Response(beh["status"], headers=headers, content=content)


def classify(m, req_id, markers):
    d = m.model_dump(exclude_none=True) if hasattr(m, "model_dump") else m
    if not isinstance(d, dict):
        return ["junk", "none", "synth"]
    mid = d.get("id")
    if "id" not in d or mid is None:
        idc = "none"
    elif mid == req_id and type(mid) is type(req_id):
        idc = "own"
    else:
        idc = "other"
    if d.get("method") is not None:
        k = "notif" if idc == "none" else "req"
    elif d.get("error") is not None:
        k = "err"
    elif "result" in d:
        k = "resp"
    else:
        k = "junk"
    mk = None
    for part in ("result", "params"):
        p = d.get(part)
        if isinstance(p, dict) and "marker" in p:
            mk = p["marker"]
        if isinstance(p, list) and len(p) == 2 and p[0] == "marker":
            mk = p[1]
    if isinstance(d.get("error"), dict) and isinstance(d["error"].get("data"), dict):
        mk = d["error"]["data"].get("marker")
    src = "server" if mk in markers else "synth"
    if src == "server" and isinstance(d.get("result"), dict) and "text" in d["result"] and d["result"]["text"] != TEXT:
        src = "corrupt"          # the server's message, but not with the server's content
    return [k, idc, src]


def run_sequences(seqs):
    """seqs: list of sequences of steps {kind, idc, beh}.  Returns the traces."""
    from chuk_mcp.transports.http.http_client import http_client
    from chuk_mcp.transports.http.parameters import StreamableHTTPParameters
    from chuk_mcp.protocol.messages.json_rpc_message import JSONRPCRequest, JSONRPCNotification

    out = []

    async def one(seq, n=0):
        evs = []
        state = {"i": 0, "hdr": None, "beh": None, "rid": None, "n": n, "foreign": "someone-else"}

        async def handler(request):
            state["hdr"] = request.headers.get("mcp-session-id", "absent")
            # every other sequence receives its bodies in pieces
            r = build_response(state["beh"], state["rid"], state["i"] * 10, chunk_seed=(state["n"] * 31 + state["i"]) if state["n"] % 2 else None,
                               foreign_id=state["foreign"])
            if isinstance(r, Exception):
                raise r
            return r

        with httpx_seam.seam(handler):
            params = StreamableHTTPParameters(url="http://verif.invalid/mcp", timeout=5.0)
            async with http_client(params) as (rs, ws):
                for i, st in enumerate(seq, 1):
                    state.update(i=i, beh=st["beh"], hdr="unsent", foreign="someone-else")
                    if i < len(seq) and seq[i]["kind"] == "request":
                        nxt = concrete_id(seq[i]["idc"], i + 1)
                        cur = concrete_id(st["idc"], i) if st["kind"] == "request" else None
                        if nxt != cur or type(nxt) is not type(cur):
                            state["foreign"] = nxt
                    if st["kind"] == "request":
                        rid = concrete_id(st["idc"], i)
                        state["rid"] = rid
                        msg = JSONRPCRequest(jsonrpc="2.0", id=rid, method="tools/list", params={"cursor": "c%d" % i})
                        if i % 2 == 0:
                            msg = msg.model_dump(exclude_none=True)
                    else:
                        state["rid"] = "no-request-id"
                        msg = JSONRPCNotification(jsonrpc="2.0", method="notifications/initialized", params={})
                    await ws.send(msg)
                    got = []
                    quiet = 0
                    while quiet < 2:
                        await idle(2)
                        a = drain(rs)
                        got.extend(a)
                        quiet = quiet + 1 if not a else 0
                    markers = {i * 10, i * 10 + 1, i * 10 + 2}
                    evs.append({"kind": st["kind"], "idc": st.get("idc", "none"), "beh": st["beh"], "hdr": state["hdr"],
                                "items": [classify(m, state["rid"], markers) for m in got]})
        return evs

    async def main():
        for n, s in enumerate(seqs):
            out.append(await one(s, n))

    vloop.run(main)
    return out


def run_real_socket(scenarios, timeout=0.6):
    """a few sequences over a REAL loopback socket and the real clock: the only place where the
    transport's own timeout configuration is exercised (a scripted httpx transport never times out).
    scenarios: list of lists of "ok" | "stall" | "lateAnswer".  Returns traces in run_sequences'
    format (a stalled POST is the behaviour exc=timeout)."""
    import asyncio
    from chuk_mcp.transports.http.http_client import http_client
    from chuk_mcp.transports.http.parameters import StreamableHTTPParameters
    from chuk_mcp.protocol.messages.json_rpc_message import JSONRPCRequest

    BEH_OK = {"status": 200, "ctype": "json", "body": "resp", "enc": "std", "exc": "none", "sess": "absent"}
    BEH_TO = {"status": 200, "ctype": "absent", "body": "empty", "enc": "std", "exc": "timeout", "sess": "absent"}
    out = []

    async def one(plan):
        state = {"i": 0}
        stalled = []

        async def serve(reader, writer):
            try:
                head = await reader.readuntil(b"\r\n\r\n")
                n = 0
                for line in head.split(b"\r\n"):
                    if line.lower().startswith(b"content-length:"):
                        n = int(line.split(b":")[1])
                body = await reader.readexactly(n) if n else b""
                req = json.loads(body.decode() or "null")
                kind = plan[min(state["i"], len(plan)) - 1] if state["i"] else "ok"
                if kind == "stall":
                    stalled.append(writer)
                    await asyncio.sleep(30)
                    return
                if kind == "lateAnswer":
                    await asyncio.sleep(timeout * 3)
                payload = json.dumps({"jsonrpc": "2.0", "id": req.get("id"), "result": {"marker": state["i"] * 10, "text": TEXT, "nil": None}}).encode()
                writer.write(b"HTTP/1.1 200 OK\r\nContent-Type: application/json\r\nContent-Length: %d\r\nConnection: close\r\n\r\n" % len(payload) + payload)
                await writer.drain()
            except Exception:
                pass
            finally:
                try:
                    writer.close()
                except Exception:
                    pass

        server = await asyncio.start_server(serve, "127.0.0.1", 0)
        port = server.sockets[0].getsockname()[1]
        evs = []
        try:
            async with http_client(StreamableHTTPParameters(url="http://127.0.0.1:%d/mcp" % port, timeout=timeout)) as (rs, ws):
                for i, kind in enumerate(plan, 1):
                    state["i"] = i
                    rid = 1000 + i
                    await ws.send(JSONRPCRequest(jsonrpc="2.0", id=rid, method="tools/list", params={"cursor": "c%d" % i}))
                    got = []
                    # the bound of the statement: the configured timeout, plus slack
                    t_end = asyncio.get_running_loop().time() + timeout * 2 + 1.5
                    while asyncio.get_running_loop().time() < t_end:
                        await asyncio.sleep(0.05)
                        got.extend(drain(rs))
                        if any(classify(m, rid, {i * 10})[1] == "own" for m in got):
                            await asyncio.sleep(0.1)
                            got.extend(drain(rs))
                            break
                    evs.append({"kind": "request", "idc": "int", "beh": BEH_OK if kind == "ok" else BEH_TO, "hdr": "absent",
                                "items": [classify(m, rid, {i * 10}) for m in got]})
        finally:
            server.close()
            for w in stalled:
                try:
                    w.close()
                except Exception:
                    pass
        return evs

    for plan in scenarios:
        try:
            out.append(asyncio.run(asyncio.wait_for(one(plan), 60)))
        except Exception as e:
            out.append([{"kind": "request", "idc": "int", "beh": BEH_TO, "hdr": "absent", "items": [["junk", "none", "harness:" + type(e).__name__]]}])
    return out
