------------------------------ MODULE Envelope ------------------------------
(***************************************************************************)
(* JSON-RPC 2.0 envelopes (C02):                                           *)
(*   chuk_mcp/protocol/messages/json_rpc_message.py  constructors,         *)
(*   model_dump / model_dump_json, parse_message                           *)
(* A message is a record over small abstract domains.  Every emitter goes  *)
(* through Construct -> Serialise (dump / json) -> Parse; the emitted form *)
(* must be Valid and the parsed form must be the same kind with the same   *)
(* id class (value and JSON type are compared by the harness), method,     *)
(* params, result and error.                                               *)
(***************************************************************************)
EXTENDS Naturals, FiniteSets, TLC

IdClasses == {"int", "str"}
Ver == {"2.0"}
Env == [ver : {"2.0", "1.0", "absent"}, id : {"int", "str", "absent", "null", "bool", "other"}, method : {"absent", "str", "nonstr"},
        params : BOOLEAN, result : BOOLEAN, error : BOOLEAN, codeInt : BOOLEAN, msgStr : BOOLEAN]

Kind(e) ==
  IF e.ver # "2.0" THEN "invalid"
  ELSE IF e.method = "str" /\ e.id \in IdClasses /\ ~e.result /\ ~e.error THEN "request"
  ELSE IF e.method = "str" /\ e.id = "absent" /\ ~e.result /\ ~e.error THEN "notification"
  ELSE IF e.method = "absent" /\ e.id \in IdClasses \cup {"null"} /\ e.result /\ ~e.error /\ ~e.params THEN "result"
  ELSE IF e.method = "absent" /\ e.id \in IdClasses \cup {"null"} /\ e.error /\ ~e.result /\ ~e.params /\ e.codeInt /\ e.msgStr THEN "error"
  ELSE "invalid"
Valid(e) == Kind(e) # "invalid"

\* the emitters and what they are meant to build
Emitters == {"request", "notification", "result", "error"}
Build(em, idc, hasPayload) ==
  CASE em = "request" -> [ver |-> "2.0", id |-> idc, method |-> "str", params |-> hasPayload, result |-> FALSE, error |-> FALSE, codeInt |-> FALSE, msgStr |-> FALSE]
    [] em = "notification" -> [ver |-> "2.0", id |-> "absent", method |-> "str", params |-> hasPayload, result |-> FALSE, error |-> FALSE, codeInt |-> FALSE, msgStr |-> FALSE]
    [] em = "result" -> [ver |-> "2.0", id |-> idc, method |-> "absent", params |-> FALSE, result |-> TRUE, error |-> FALSE, codeInt |-> FALSE, msgStr |-> FALSE]
    [] em = "error" -> [ver |-> "2.0", id |-> idc, method |-> "absent", params |-> FALSE, result |-> FALSE, error |-> TRUE, codeInt |-> TRUE, msgStr |-> TRUE]

VARIABLES em, idc, payload, stage, emitted, parsed
vars == <<em, idc, payload, stage, emitted, parsed>>
NoEnv == [ver |-> "absent"]
Init == em \in Emitters /\ idc \in IdClasses /\ payload \in BOOLEAN /\ stage = "start" /\ emitted = NoEnv /\ parsed = NoEnv
Construct == stage = "start" /\ stage' = "constructed" /\ emitted' = Build(em, idc, payload) /\ UNCHANGED <<em, idc, payload, parsed>>
\* exclude_none serialisation keeps the envelope; the parser classifies it by its members
Serialise == stage = "constructed" /\ stage' = "serialised" /\ UNCHANGED <<em, idc, payload, emitted, parsed>>
Parse == stage = "serialised" /\ stage' = "parsed" /\ parsed' = emitted /\ UNCHANGED <<em, idc, payload, emitted>>
Next == Construct \/ Serialise \/ Parse
Spec == Init /\ [][Next]_vars

EmittedValid == stage # "start" => Valid(emitted) /\ Kind(emitted) = em
RoundTrip == stage = "parsed" => Kind(parsed) = Kind(emitted) /\ parsed = emitted
=============================================================================
