------------------------ MODULE StdioFramingTrace ------------------------
(* Real _stdout_reader runs (through StdioClient.__aenter__ behind the process seam) on     *)
(* concrete byte streams cut into chunks.  A trace carries the stream description and, per  *)
(* chunk, the line indices that appeared on the read stream and on the notification stream. *)
(* Strict = TRUE: each chunk is the ReadChunk step of StdioFraming and delivers exactly     *)
(* what the model delivers.  Strict = FALSE (observer): the deliveries are accumulated as   *)
(* logged.  Clauses are judged at the end of the trace.                                      *)
EXTENDS StdioFraming, TraceBatch

CONSTANT Strict
VARIABLES tid, l
tvars == <<vars, tid, l>>
Tr == Traces[tid]
Evs == Tr.ev
Ev == Evs[l]
\* the stream of trace i is the one the trace carries
TraceStreamOf(i) == [id |-> i, len |-> Traces[i].len, ends |-> Traces[i].ends, wf |-> Traces[i].wf,
                     notif |-> Traces[i].notif, mid |-> {Traces[i].mid[k] : k \in DOMAIN Traces[i].mid}]
\* cfg: Upto <- TraceUpto
TraceUpto(s, p) == Cardinality({j \in DOMAIN s.ends : s.ends[j] <= p})
More == l <= Len(Evs)
Consume == l' = l + 1 /\ tid' = tid

TInit == tid \in 1..NT /\ l = 1 /\ sid = TraceStreamOf(tid) /\ pos = 0 /\ delivered = <<>> /\ notified = <<>> /\ alive = TRUE /\ cuts = 0 /\ eof = FALSE

\* Streams[sid] of the base module is the trace's own stream
SNext ==
  \/ /\ More /\ Ev.e = "Chunk" /\ ReadChunkOf(Ev.n) /\ Consume
     /\ delivered' = delivered \o Ev.delivered
     /\ notified' = notified \o Ev.notified
  \/ /\ More /\ Ev.e = "Eof" /\ EndOfStream /\ Consume /\ Ev.delivered = <<>>

ONext ==
  \/ /\ More /\ Ev.e = "Chunk" /\ Consume
     /\ pos' = pos + Ev.n
     /\ delivered' = delivered \o Ev.delivered
     /\ notified' = notified \o Ev.notified
     /\ UNCHANGED <<sid, alive, cuts, eof>>
  \/ /\ More /\ Ev.e = "Eof" /\ Consume /\ eof' = TRUE
     /\ delivered' = delivered \o Ev.delivered
     /\ notified' = notified \o Ev.notified
     /\ UNCHANGED <<sid, pos, alive, cuts>>

TNext == IF Strict THEN SNext ELSE ONext
TSpec == TInit /\ [][TNext]_tvars

Clauses == <<
  <<"PrefixOk", PrefixOk>>,
  <<"CompleteAtEnd", eof => delivered = Expected(S) /\ (Len(ExpectedNotifs(S)) <= NotifyBuffer => notified = ExpectedNotifs(S))>>,
  <<"ChunkIndependent", delivered = Keep(LinesIn(S, 1, 0, pos), S.wf)>>
>>
Judge ==
  /\ Reached(tid, l)
  /\ (~Strict \/ l = Len(Evs) + 1 => JudgeAll(tid, Clauses, "x"))
  /\ (l = Len(Evs) + 1 => Accept(tid))
=============================================================================
