--------------------------- MODULE ClientSession ---------------------------
(***************************************************************************)
(* The high-level client (growth of the specification beyond the listed    *)
(* statements):                                                            *)
(*   chuk_mcp/client/client.py       MCPClient                             *)
(*   chuk_mcp/client/connection.py   connect_to_server                     *)
(* One MCPClient on one Transport, used by one or several tasks.           *)
(*                                                                         *)
(* A call of initialize():                                                 *)
(*   InitBegin     if already initialized return the cached information    *)
(*                 (no traffic); otherwise ask the transport for streams   *)
(*                 (raises when the transport context was not entered)     *)
(*   InitPropose   send_initialize writes the initialize request           *)
(*   InitReply     the server answers (environment)                        *)
(*   InitProcess   the client processes the answer: on an accepted version *)
(*                 the initialized notification is written, the client     *)
(*                 becomes initialized, the transport is told the version; *)
(*                 any other answer raises and leaves the client as it was *)
(* A call of an operation (list_tools, call_tool, ...):                    *)
(*   OpBegin       _ensure_initialized: when not initialized the whole     *)
(*                 initialize() procedure runs first, inside the call      *)
(*   OpSend        the operation's request is written                      *)
(*   OpReply       the server answers (environment)                        *)
(*   OpProcess     the call returns the result or raises the error         *)
(* The code has no lock around _ensure_initialized: two tasks that both    *)
(* find a fresh client both perform the handshake (Tasks >= 2 shows it).   *)
(***************************************************************************)
EXTENDS Naturals, Sequences, FiniteSets, TLC

CONSTANTS
  Tasks,          \* users of the one client
  Ops,            \* operation names
  Offered,        \* versions the client offers (it proposes the first)
  Answers,        \* what the server may answer to initialize: versions, "rpcError", "silence"
  MaxCalls        \* bound on the number of calls begun

VARIABLES
  transport,      \* "new" | "open" | "exited"   (the transport's async context)
  inited,         \* client.initialized
  cached,         \* version remembered by the client ("none" before)
  tver,           \* version the transport was told ("unset" before)
  wire,           \* what was written to the server, in order: [m, by]
  pc,             \* pc[t]: where task t is inside its current call
  call,           \* call[t]: [kind: "none"|"initialize"|op, auto: inside an operation]
  results,        \* completed calls in completion order: [by, kind, out]
  pending,        \* pending[t]: the server's answer task t has not processed yet
  ncalls

vars == <<transport, inited, cached, tver, wire, pc, call, results, pending, ncalls>>

Init ==
  /\ transport = "new" /\ inited = FALSE /\ cached = "none" /\ tver = "unset"
  /\ wire = <<>> /\ pc = [t \in Tasks |-> "idle"] /\ call = [t \in Tasks |-> [kind |-> "none", op |-> "none"]]
  /\ results = <<>> /\ ncalls = 0 /\ pending = [t \in Tasks |-> "none"]

Finish(t, out) ==
  /\ results' = Append(results, [by |-> t, kind |-> call[t].kind, op |-> call[t].op, out |-> out])
  /\ pc' = [pc EXCEPT ![t] = "idle"]
  /\ call' = [call EXCEPT ![t] = [kind |-> "none", op |-> "none"]]

\* ---- the transport context (environment) ----
Enter == transport = "new" /\ transport' = "open" /\ UNCHANGED <<inited, cached, tver, wire, pc, call, results, pending, ncalls>>
Exit == transport = "open" /\ (\A t \in Tasks : pc[t] = "idle") /\ transport' = "exited"
        /\ UNCHANGED <<inited, cached, tver, wire, pc, call, results, pending, ncalls>>

\* ---- calls ----
Begin(t, kind, op) ==
  /\ pc[t] = "idle" /\ ncalls < MaxCalls
  /\ ncalls' = ncalls + 1
  /\ call' = [call EXCEPT ![t] = [kind |-> kind, op |-> op]]
  /\ pc' = [pc EXCEPT ![t] = "check"]
  /\ UNCHANGED <<transport, inited, cached, tver, wire, results, pending>>

\* `if self.initialized` at the top of initialize() / _ensure_initialized()
Check(t) ==
  /\ pc[t] = "check"
  /\ IF inited
     THEN IF call[t].kind = "initialize"
          THEN Finish(t, "cached") /\ UNCHANGED <<transport, inited, cached, tver, wire, pending, ncalls>>
          ELSE pc' = [pc EXCEPT ![t] = "send"] /\ UNCHANGED <<transport, inited, cached, tver, wire, call, results, pending, ncalls>>
     ELSE pc' = [pc EXCEPT ![t] = "streams"] /\ UNCHANGED <<transport, inited, cached, tver, wire, call, results, pending, ncalls>>

\* transport.get_streams(), then send_initialize writes its request
Propose(t) ==
  /\ pc[t] = "streams"
  /\ IF transport # "open"
     THEN Finish(t, "notStarted") /\ UNCHANGED <<transport, inited, cached, tver, wire, pending, ncalls>>
     ELSE /\ wire' = Append(wire, [m |-> "initialize", by |-> t])
          /\ pc' = [pc EXCEPT ![t] = "answer"]
          /\ UNCHANGED <<transport, inited, cached, tver, call, results, pending, ncalls>>

InitReply(t, a) ==
  /\ pc[t] = "answer"
  /\ pending' = [pending EXCEPT ![t] = a]
  /\ pc' = [pc EXCEPT ![t] = "answered"]
  /\ UNCHANGED <<transport, inited, cached, tver, wire, call, results, ncalls>>

\* all tasks read one stream: a task waiting for its own answer may take another task's answer
\* off it and drop it (RequestWait, finding C18); the owner then runs into its timeout
AwaitingAnswer(u) == pc[u] \in {"answer", "answered", "opAnswer", "opAnswered"}
Stolen(t) ==
  /\ pc[t] \in {"answered", "opAnswered"} /\ pending[t] # "stolen"
  /\ \E u \in Tasks \ {t} : AwaitingAnswer(u)
  /\ pending' = [pending EXCEPT ![t] = "stolen"]
  /\ UNCHANGED <<transport, inited, cached, tver, wire, pc, call, results, ncalls>>

InitProcess(t) ==
  /\ pc[t] = "answered"
  /\ pending' = [pending EXCEPT ![t] = "none"]
  /\ LET a == pending[t] IN
     IF a \in Offered
     THEN /\ wire' = Append(wire, [m |-> "initialized", by |-> t])
          /\ inited' = TRUE /\ cached' = a /\ tver' = a
          /\ IF call[t].kind = "initialize"
             THEN Finish(t, a)
             ELSE pc' = [pc EXCEPT ![t] = "send"] /\ UNCHANGED <<call, results>>
          /\ UNCHANGED <<transport, ncalls>>
     ELSE /\ Finish(t, IF a = "rpcError" THEN "rpcError" ELSE IF a \in {"silence", "stolen"} THEN "timeout" ELSE "mismatch")
          /\ UNCHANGED <<transport, inited, cached, tver, wire, ncalls>>

\* a client that was initialized keeps believing so after its transport's context was left:
\* the write then fails on the closed stream
OpSend(t) ==
  /\ pc[t] = "send"
  /\ IF transport = "open"
     THEN /\ wire' = Append(wire, [m |-> call[t].op, by |-> t])
          /\ pc' = [pc EXCEPT ![t] = "opAnswer"]
          /\ UNCHANGED <<transport, inited, cached, tver, call, results, pending, ncalls>>
     ELSE Finish(t, "closed") /\ UNCHANGED <<transport, inited, cached, tver, wire, pending, ncalls>>

OpReply(t, ok) ==
  /\ pc[t] = "opAnswer"
  /\ pending' = [pending EXCEPT ![t] = IF ok THEN "result" ELSE "error"]
  /\ pc' = [pc EXCEPT ![t] = "opAnswered"]
  /\ UNCHANGED <<transport, inited, cached, tver, wire, call, results, ncalls>>

OpProcess(t) ==
  /\ pc[t] = "opAnswered"
  /\ Finish(t, IF pending[t] = "stolen" THEN "timeout" ELSE pending[t])
  /\ pending' = [pending EXCEPT ![t] = "none"]
  /\ UNCHANGED <<transport, inited, cached, tver, wire, ncalls>>

Next ==
  \/ Enter \/ Exit
  \/ \E t \in Tasks :
        \/ Begin(t, "initialize", "none")
        \/ \E o \in Ops : Begin(t, "op", o)
        \/ Check(t) \/ Propose(t) \/ InitProcess(t) \/ OpSend(t) \/ OpProcess(t) \/ Stolen(t)
        \/ \E a \in Answers : InitReply(t, a)
        \/ \E ok \in BOOLEAN : OpReply(t, ok)

Spec == Init /\ [][Next]_vars

-----------------------------------------------------------------------------
Idx(m) == {i \in DOMAIN wire : wire[i].m = m}

\* an operation's request is on the wire only after a completed handshake
HandshakeFirst ==
  \A i \in DOMAIN wire : wire[i].m \in Ops =>
     \E j, k \in DOMAIN wire : j < k /\ k < i /\ wire[j].m = "initialize" /\ wire[k].m = "initialized"
\* every initialized notification follows its own task's initialize request
InitializedAfterInitialize ==
  \A k \in Idx("initialized") : \E j \in Idx("initialize") : j < k /\ wire[j].by = wire[k].by
\* the client and the transport agree on the version whenever the client is initialized
VersionTracked == inited => cached \in Offered /\ tver = cached
NotInitedNothingCached == ~inited => cached = "none" /\ tver = "unset"
\* a failed handshake leaves no trace: whoever fails to initialize finds the client as it was
FailureLeavesFresh ==
  [][\A t \in Tasks : InitProcess(t) /\ pending[t] \notin Offered => UNCHANGED <<inited, cached, tver, wire>>]_vars
\* initialize() on an initialized client causes no traffic
CachedMeansInited == \A i \in DOMAIN results : results[i].out = "cached" => inited
\* with a single task the handshake is performed at most once successfully
AtMostOneHandshake == Cardinality(Idx("initialized")) <= 1
\* nothing is written unless the transport context is open
NothingWithoutTransport == transport = "new" => wire = <<>>
\* after the context was left nothing more is written
WireFrozenAfterExit == [][transport = "exited" => wire' = wire]_vars
=============================================================================
