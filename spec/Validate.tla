------------------------------ MODULE Validate ------------------------------
(***************************************************************************)
(* Two validation back ends (C09, C10):                                    *)
(*   chuk_mcp/protocol/mcp_pydantic_base.py                                *)
(*     Pydantic v2 (smart-mode unions, strict Literal)                     *)
(*     fallback  _deep_validate / _build_field_values / post-init hooks    *)
(* This module transcribes the part of the two semantics in which they can *)
(* differ on spec-valid traffic: unions of primitives (RequestId =         *)
(* Union[int, str], ProgressToken = Union[str, int]), unions of models     *)
(* discriminated by a Literal member (the content union), Literal members  *)
(* and post-init invariants.  Values and types are small tagged records.   *)
(* Deviation constants describe the fallback before its repair:            *)
(*   FbUnionFirstMatch   no exact-type pass: the first member that accepts *)
(*                       after coercion wins ("123" -> 123)                *)
(*   FbLiteralUnchecked  Literal members are passed through                *)
(*   PydSkipsPostInit    __post_init__ invariants are not run by Pydantic  *)
(***************************************************************************)
EXTENDS Naturals, Sequences, FiniteSets, TLC

CONSTANTS FbUnionFirstMatch, FbLiteralUnchecked, PydSkipsPostInit

\* ---- values ----
IntVals == {"0", "7", "-3", "big"}                       \* JSON integers (as text)
StrVals == {"abc", "", "123", "007", "-5"}               \* JSON strings
I(x) == [t |-> "int", v |-> x]
S(x) == [t |-> "str", v |-> x]
IsDigits(s) == s \in {"123", "007", "-5"}
ToInt(s) == CASE s = "123" -> "123" [] s = "007" -> "7" [] s = "-5" -> "-5"    \* int("007") = 7

ContentKinds == {"text", "image", "audio", "resource"}
\* a content object: discriminator + the members it carries (image and audio carry the same)
Members(k) == CASE k = "text" -> {"text"} [] k \in {"image", "audio"} -> {"data", "mimeType"} [] k = "resource" -> {"resource"}
C(k) == [t |-> "obj", type |-> k, members |-> Members(k)]

\* ---- types ----
TInt == [k |-> "int"]
TStr == [k |-> "str"]
TUnion(ms) == [k |-> "union", ms |-> ms]
TModel(name) == [k |-> "model", name |-> name]
RequestId == TUnion(<<TInt, TStr>>)
ProgressToken == TUnion(<<TStr, TInt>>)
ModelFor(k) == TModel(k)
ContentUnion == TUnion(<<ModelFor("text"), ModelFor("image"), ModelFor("audio"), ModelFor("resource")>>)
ContentUnion2 == TUnion(<<ModelFor("text"), ModelFor("audio"), ModelFor("image")>>)

Reject == [r |-> "reject"]
Ok(variant, val) == [r |-> "ok", variant |-> variant, val |-> val]

\* ---- primitive members ----
ExactPrim(T, v) == (T.k = "int" /\ v.t = "int") \/ (T.k = "str" /\ v.t = "str")
\* lax coercion, both back ends: digit strings become ints, ints become strings
Coerce(T, v) ==
  IF ExactPrim(T, v) THEN Ok(T.k, v)
  ELSE IF T.k = "int" /\ v.t = "str" /\ IsDigits(v.v) THEN Ok("int", I(ToInt(v.v)))
  ELSE IF T.k = "str" /\ v.t = "int" THEN Ok("str", S(v.v))
  ELSE Reject

\* ---- models discriminated by a Literal member ----
ModelAccepts(name, v, literalChecked) ==
  /\ v.t = "obj"
  /\ Members(name) \subseteq v.members
  /\ (literalChecked => v.type = name)

\* the first member of the union (in declaration order) that f accepts
FirstOk(ms, v, f(_, _)) ==
  LET idx == {i \in DOMAIN ms : f(ms[i], v).r = "ok"} IN
  IF idx = {} THEN Reject ELSE f(ms[CHOOSE i \in idx : \A j \in idx : i <= j], v)

PydMember(T, v) == IF T.k = "model" THEN (IF ModelAccepts(T.name, v, TRUE) THEN Ok(T.name, v) ELSE Reject) ELSE Coerce(T, v)
FbMember(T, v) == IF T.k = "model" THEN (IF ModelAccepts(T.name, v, ~FbLiteralUnchecked) THEN Ok(T.name, v) ELSE Reject) ELSE Coerce(T, v)
ExactMember(T, v) == IF T.k # "model" /\ ExactPrim(T, v) THEN Ok(T.k, v) ELSE Reject

\* Pydantic v2 smart mode: an exact match anywhere in the union wins, then left to right
Pyd(T, v) ==
  IF T.k = "union"
  THEN (IF FirstOk(T.ms, v, ExactMember).r = "ok" THEN FirstOk(T.ms, v, ExactMember) ELSE FirstOk(T.ms, v, PydMember))
  ELSE PydMember(T, v)
\* fallback: (after repair) the same exact-type pass, then the first member that accepts
Fb(T, v) ==
  IF T.k = "union"
  THEN (IF ~FbUnionFirstMatch /\ FirstOk(T.ms, v, ExactMember).r = "ok" THEN FirstOk(T.ms, v, ExactMember) ELSE FirstOk(T.ms, v, FbMember))
  ELSE FbMember(T, v)

\* ---- the spec-valid wire values of each type ----
Valid(T) ==
  IF T = RequestId \/ T = ProgressToken THEN {I(x) : x \in IntVals} \cup {S(x) : x \in StrVals}
  ELSE {C(k) : k \in {T.ms[i].name : i \in DOMAIN T.ms}}
Types == {RequestId, ProgressToken, ContentUnion, ContentUnion2}

\* ---- post-init invariants (root URIs must be file://, at most 100 completion values) ----
Invariants == {"CompletionMax100"}
FbEnforces(inv) == TRUE
PydEnforces(inv) == ~PydSkipsPostInit

VARIABLES ty, val
vars == <<ty, val>>
Init == ty \in Types /\ val \in Valid(ty)
Next == UNCHANGED vars
Spec == Init /\ [][Next]_vars

BothAccept == Pyd(ty, val).r = "ok" /\ Fb(ty, val).r = "ok"
Agree == Pyd(ty, val) = Fb(ty, val)
\* ids keep their JSON type, discriminated content keeps its variant
IdKeepsType == ty \in {RequestId, ProgressToken} => Pyd(ty, val).val = val /\ Fb(ty, val).val = val
ContentKeepsVariant == ty \in {ContentUnion, ContentUnion2} => Pyd(ty, val).variant = val.type /\ Fb(ty, val).variant = val.type
InvariantsBothOrNeither == ty \in Types => \A inv \in Invariants : FbEnforces(inv) = PydEnforces(inv)
=============================================================================
