------------------------------ MODULE Channel ------------------------------
(***************************************************************************)
(* The abstract carrier (C15): whatever transport carries a conversation - *)
(* stdio, Streamable HTTP with JSON bodies, Streamable HTTP with SSE       *)
(* bodies, legacy SSE - the client observes the same thing: for every      *)
(* request the server's notifications and then its response appear on the  *)
(* read stream once, in order and unaltered, and the request helper        *)
(* returns the result or raises the error class that belongs to the        *)
(* response.  A conversation is a sequence of [nn, resp]: nn notifications *)
(* (0..MaxNotifs) followed by one response of class resp.                  *)
(***************************************************************************)
EXTENDS Naturals, Sequences, FiniteSets, TLC

CONSTANTS Carriers, MaxReq, MaxNotifs

RespClasses == {"objResult", "unicodeNulls", "listResult", "strResult", "retryableError", "permanentError"}
Conversations == UNION {[1..n -> [nn : 0..MaxNotifs, resp : RespClasses]] : n \in 1..MaxReq}

\* what the server puts on the wire for request r of conversation c
Wire(c, r) == [j \in 1..(c[r].nn + 1) |-> IF j <= c[r].nn THEN [k |-> "notif", req |-> r, n |-> j] ELSE [k |-> c[r].resp, req |-> r, n |-> 0]]
Outcome(cls) == CASE cls \in {"objResult", "unicodeNulls", "listResult", "strResult"} -> "result"
                  [] cls = "retryableError" -> "RetryableError"
                  [] cls = "permanentError" -> "NonRetryableError"

VARIABLES carrier, conv, r, sent, delivered, outcomes, answered
vars == <<carrier, conv, r, sent, delivered, outcomes, answered>>

Init == carrier \in Carriers /\ conv \in Conversations /\ r = 1 /\ sent = <<>> /\ delivered = <<>> /\ outcomes = <<>> /\ answered = 0

\* the server answers request r: its messages go onto the carrier
ServerAnswers ==
  /\ r <= Len(conv) /\ answered = r - 1
  /\ sent' = sent \o Wire(conv, r) /\ answered' = r
  /\ UNCHANGED <<carrier, conv, r, delivered, outcomes>>

\* the carrier hands the next message to the client
Deliver ==
  /\ Len(delivered) < Len(sent)
  /\ delivered' = Append(delivered, sent[Len(delivered) + 1])
  /\ UNCHANGED <<carrier, conv, r, sent, outcomes, answered>>

\* the request helper completes on the response
HelperCompletes ==
  /\ r <= Len(conv) /\ answered = r /\ Len(delivered) = Len(sent)
  /\ outcomes' = Append(outcomes, Outcome(conv[r].resp))
  /\ r' = r + 1
  /\ UNCHANGED <<carrier, conv, sent, delivered, answered>>

Next == ServerAnswers \/ Deliver \/ HelperCompletes
Spec == Init /\ [][Next]_vars

IsPrefix(a, b) == Len(a) <= Len(b) /\ SubSeq(b, 1, Len(a)) = a
NothingLostOrInvented == IsPrefix(delivered, sent)
Expected(c) == LET F[i \in 0..Len(c)] == IF i = 0 THEN <<>> ELSE F[i - 1] \o Wire(c, i) IN F[Len(c)]
CarrierIndependent == r = Len(conv) + 1 => delivered = Expected(conv) /\ outcomes = [i \in 1..Len(conv) |-> Outcome(conv[i].resp)]

\* Channel implements Pipe
PipeOfChannel == INSTANCE Pipe WITH sent <- sent, delivered <- delivered
ImplementsPipe == PipeOfChannel!Spec
=============================================================================
