"""Virtual-time asyncio event loop.

time() is a field; when nothing is ready the clock jumps to the next armed timer, so a
60 s timeout costs microseconds and every execution is deterministic.  anyio deadlines
(fail_after / move_on_after) are loop.call_at timers, so they obey this clock.

If the loop has nothing ready and no timer armed while the main coroutine is unfinished, the
program under test would hang forever: Deadlock is raised instead.
"""
import asyncio
import heapq
import selectors


class Deadlock(RuntimeError):
    pass


class VirtualLoop(asyncio.SelectorEventLoop):
    def __init__(self):
        super().__init__(selectors.SelectSelector())
        self._vt = 0.0
        self.max_time = 1e9

    def time(self):
        return self._vt

    def _run_once(self):
        # drop cancelled timers at the head so that the jump target is a live timer
        while self._scheduled and self._scheduled[0]._cancelled:
            self._timer_cancelled_count -= 1
            h = heapq.heappop(self._scheduled)
            h._scheduled = False
        if not self._ready:
            if self._scheduled:
                when = self._scheduled[0]._when
                if when > self._vt:
                    self._vt = when
                if self._vt > self.max_time:
                    raise Deadlock(f"virtual time ran past {self.max_time}")
            elif not self._stopping:
                # nothing will ever happen again (no fds are registered by the harness
                # except the self-pipe)
                raise Deadlock("no ready callbacks and no timers")
        super()._run_once()


def run(coro_fn, *args):
    """Run `await coro_fn(*args)` under anyio on a fresh virtual loop."""
    import anyio

    return anyio.run(
        coro_fn, *args, backend="asyncio", backend_options={"loop_factory": VirtualLoop}
    )


async def sleep_until(t):
    loop = asyncio.get_running_loop()
    d = t - loop.time()
    if d > 0:
        await asyncio.sleep(d)
    else:
        await asyncio.sleep(0)


def now():
    return asyncio.get_running_loop().time()
