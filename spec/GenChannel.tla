---- MODULE GenChannel ----
EXTENDS Channel, Json
Emit == (r = 1 /\ sent = <<>> /\ sent' # <<>>) => PrintT(<<"PATH", ToJson(conv)>>)
====
