---- MODULE GenStdioOut ----
(* histories of StdioOut behaviours, printed when the child's stdin gets closed *)
EXTENDS StdioOut, Json
VARIABLE hist
GInit == Init /\ hist = <<>>
GNext ==
  \/ \E sh \in Shapes : AcceptItem(sh) /\ hist' = Append(hist, [op |-> "Accept", shape |-> sh])
  \/ WriteOne /\ hist' = Append(hist, [op |-> "Write"])
  \/ CloseWrite /\ hist' = Append(hist, [op |-> "CloseWrite"])
  \/ CloseStdin /\ UNCHANGED hist
GSpec == GInit /\ [][GNext]_<<vars, hist>>
Emit == stdinClosed' /\ ~stdinClosed => PrintT(<<"PATH", ToJson(hist)>>)
====
