#!/bin/bash
# seedconfirm.sh <pid> <mutant dir> <name>   confirm a seeded change in a scratch worktree:
#   tests pass with it, demo fails with it and passes without it; then store it in /verif/seeded/<name>/
set -u
pid=$1; src=$2; name=$3
wt=/tmp/confirm_$name
rm -rf $wt; git -C /repo worktree prune; git -C /repo worktree add -q --detach $wt HEAD || exit 2
cd $wt
PYTHONPATH=$wt/src timeout 120 /venv/bin/python $src/demo.py > /tmp/confirm_$name.base.log 2>&1; base=$?
git apply $src/patch.diff || { echo "PATCH DOES NOT APPLY"; git -C /repo worktree remove --force $wt; exit 3; }
PYTHONPATH=$wt/src timeout 120 /venv/bin/python $src/demo.py > /tmp/confirm_$name.mut.log 2>&1; mut=$?
/venv/bin/python -m pytest -q -p no:cacheprovider --timeout=900 -x > /tmp/confirm_$name.tests.log 2>&1; tests=$?
tail -1 /tmp/confirm_$name.tests.log
echo "demo base rc=$base  mutated rc=$mut  tests rc=$tests"
cd /; git -C /repo worktree remove --force $wt
if [ $base -eq 0 ] && [ $mut -ne 0 ] && [ $tests -eq 0 ]; then
  mkdir -p /verif/seeded/$name && cp $src/patch.diff $src/demo.py /verif/seeded/$name/
  /venv/bin/python - "$src/meta.json" "/verif/seeded/$name/meta.json" "$pid" <<PY
import json,sys
m=json.load(open(sys.argv[1])); m['property']=sys.argv[3]
m['confirmed']={"scratch_worktree":"git worktree of /repo HEAD under /tmp","demo_on_unchanged_rc":0,"demo_on_changed_rc":$mut,"test_suite":"1273 passed with the change (pytest -q -p no:cacheprovider --timeout=900 -x)","commands":["PYTHONPATH=<wt>/src /venv/bin/python demo.py (before/after git apply patch.diff)","/venv/bin/python -m pytest -q -p no:cacheprovider --timeout=900 -x"]}
json.dump(m,open(sys.argv[2],'w'),indent=1)
PY
  echo CONFIRMED $name
else
  echo REJECTED $name
fi
