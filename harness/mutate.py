"""Blind-spot search by first-order mutation (a development aid, not a registered check).

    python -m harness.mutate <file under /repo/src> <check ids, comma separated> [--max N] [--funcs a,b]

For every mutant of the file (comparison swaps, negated conditions, and/or swaps, constant tweaks,
dropped statements, `return x` -> `return None`) the mutated file is written into a SCRATCH worktree
of /repo's HEAD (outside /repo and /verif, removed on exit), the listed quick checks are run against
that worktree (VERIF_REPO) until one reports a violation or exceeds --timeout seconds.  Mutants no
check notices are written to /tmp/mutsurv/ as diffs for triage: each is either equivalent / outside
the statements, or a blind spot.

/repo itself is never written.  (An earlier version overwrote the file in /repo and restored it in a
`finally`; when the run was killed the mutant stayed in /repo's working tree and was committed by a
snapshot - see DESIGN.md 9.8.)"""
import ast
import copy
import difflib
import os
import shutil
import signal
import subprocess
import sys
import tempfile

REPO = "/repo"
VERIF = os.path.dirname(os.path.dirname(os.path.abspath(__file__)))      # a copy of /verif runs its own checks (own .work)
OUT = "/tmp/mutsurv"

CMP_SWAP = {ast.Lt: ast.LtE, ast.LtE: ast.Lt, ast.Gt: ast.GtE, ast.GtE: ast.Gt, ast.Eq: ast.NotEq, ast.NotEq: ast.Eq,
            ast.Is: ast.IsNot, ast.IsNot: ast.Is, ast.In: ast.NotIn, ast.NotIn: ast.In}


def is_logging(node):
    """statements that only log / debug-print are not behaviour"""
    if isinstance(node, ast.Expr) and isinstance(node.value, ast.Call):
        f = node.value.func
        if isinstance(f, ast.Attribute) and isinstance(f.value, ast.Name) and f.value.id in ("logger", "logging"):
            return True
        if isinstance(f, ast.Name) and f.id == "print":
            return True
    return False


def sites(tree, funcs):
    """(kind, path) for every mutation site; path = list of (field, index) from the module"""
    out = []

    def walk(node, path, infunc):
        if isinstance(node, (ast.FunctionDef, ast.AsyncFunctionDef)):
            infunc = infunc or node.name in funcs
        if infunc:
            if isinstance(node, ast.Compare) and len(node.ops) == 1 and type(node.ops[0]) in CMP_SWAP:
                out.append(("cmp", path))
            if isinstance(node, (ast.If, ast.While)) and not isinstance(node.test, ast.Constant):
                out.append(("negate", path))
            if isinstance(node, ast.IfExp):
                out.append(("negate", path))
            if isinstance(node, ast.BoolOp):
                out.append(("boolop", path))
            if isinstance(node, ast.Constant) and isinstance(node.value, (int, float)) and not isinstance(node.value, bool):
                out.append(("const", path))
            if isinstance(node, ast.Return) and node.value is not None and not (isinstance(node.value, ast.Constant) and node.value.value is None):
                out.append(("retnone", path))
            if isinstance(node, (ast.Expr, ast.Assign, ast.AugAssign)) and not is_logging(node) and not (isinstance(node, ast.Expr) and isinstance(node.value, ast.Constant)):
                out.append(("drop", path))
            if isinstance(node, ast.Raise):
                out.append(("drop", path))
        for field, value in ast.iter_fields(node):
            if isinstance(value, list):
                for i, v in enumerate(value):
                    if isinstance(v, ast.AST):
                        if is_logging(v):
                            continue
                        walk(v, path + [(field, i)], infunc)
            elif isinstance(value, ast.AST):
                walk(value, path + [(field, None)], infunc)

    walk(tree, [], not funcs)
    return out


def get(node, path):
    for field, i in path:
        node = getattr(node, field)
        if i is not None:
            node = node[i]
    return node


def setnode(root, path, new):
    parent = get(root, path[:-1])
    field, i = path[-1]
    if i is None:
        setattr(parent, field, new)
    else:
        getattr(parent, field)[i] = new


def mutate(tree, kind, path):
    t = copy.deepcopy(tree)
    n = get(t, path)
    if kind == "cmp":
        n.ops = [CMP_SWAP[type(n.ops[0])]()]
    elif kind == "negate":
        n.test = ast.UnaryOp(op=ast.Not(), operand=n.test)
    elif kind == "boolop":
        n.op = ast.Or() if isinstance(n.op, ast.And) else ast.And()
    elif kind == "const":
        v = n.value
        n.value = (v + 1) if isinstance(v, int) else (v * 2 if v else 1.0)
    elif kind == "retnone":
        n.value = ast.Constant(value=None)
    elif kind == "drop":
        setnode(t, path, ast.Pass())
    ast.fix_missing_locations(t)
    return t


def scratch_worktree():
    d = tempfile.mkdtemp(prefix="verif_mut_repo.", dir="/tmp")
    os.rmdir(d)
    subprocess.run(["git", "-C", REPO, "worktree", "add", "--detach", d, "HEAD"], check=True, capture_output=True)
    return d


def remove_worktree(d):
    subprocess.run(["git", "-C", REPO, "worktree", "remove", "--force", d], capture_output=True)
    shutil.rmtree(d, ignore_errors=True)
    subprocess.run(["git", "-C", REPO, "worktree", "prune"], capture_output=True)


def main():
    rel = sys.argv[1]
    checks = sys.argv[2].split(",")
    maxn = int(sys.argv[sys.argv.index("--max") + 1]) if "--max" in sys.argv else 10 ** 9
    first = int(sys.argv[sys.argv.index("--from") + 1]) if "--from" in sys.argv else 0
    # --slice k/n: only the sites whose index is k modulo n (several copies of /verif can share the work)
    sk, sn = [int(x) for x in sys.argv[sys.argv.index("--slice") + 1].split("/")] if "--slice" in sys.argv else (0, 1)
    limit = int(sys.argv[sys.argv.index("--timeout") + 1]) if "--timeout" in sys.argv else 600
    funcs = set(sys.argv[sys.argv.index("--funcs") + 1].split(",")) if "--funcs" in sys.argv else set()
    if subprocess.run(["git", "-C", REPO, "status", "--short"], capture_output=True, text=True).stdout.strip():
        raise SystemExit("/repo is not clean")
    os.makedirs(OUT, exist_ok=True)
    src = open(os.path.join(REPO, rel)).read()
    tree = ast.parse(src)
    base = ast.unparse(tree)
    ss = sites(tree, funcs)
    print("%d mutation sites in %s" % (len(ss), rel))
    killed = survived = crashed = same = hung = 0
    tag = rel.replace("/", "_").replace(".py", "")
    # a polite kill must still remove the scratch worktree (the `finally` below)
    signal.signal(signal.SIGTERM, lambda *a: sys.exit(143))
    signal.signal(signal.SIGHUP, lambda *a: sys.exit(129))
    scratch = scratch_worktree()
    path = os.path.join(scratch, rel)
    env = dict(os.environ, VERIF_REPO=scratch)
    if "--apply" in sys.argv:
        # leave mutant K in a scratch worktree for a closer look; the caller removes it with
        # `git -C /repo worktree remove --force <dir>`
        k = int(sys.argv[sys.argv.index("--apply") + 1])
        kind, p = ss[k]
        open(path, "w").write(ast.unparse(mutate(tree, kind, p)))
        print("applied mutant %d (%s) in %s  (run checks with VERIF_REPO=%s)" % (k, kind, scratch, scratch))
        return
    try:
        for k, (kind, p) in enumerate(ss[:maxn]):
            if k < first or k % sn != sk:
                continue
            try:
                new = ast.unparse(mutate(tree, kind, p))
            except Exception:
                continue
            if new == base:
                same += 1
                continue
            try:
                compile(new, path, "exec")
            except Exception:
                continue
            open(path, "w").write(new)
            verdict = "survived"
            for c in checks:
                pr = subprocess.Popen(["./check", c], cwd=VERIF, stdout=subprocess.DEVNULL, stderr=subprocess.DEVNULL, env=env, start_new_session=True)
                try:
                    pr.wait(timeout=limit)
                except subprocess.TimeoutExpired:
                    verdict = "hung " + c
                    try:
                        os.killpg(pr.pid, 9)      # the check, its worker pool and its TLC
                    except ProcessLookupError:
                        pass
                    pr.wait()
                    break
                r = pr
                if r.returncode == 1:
                    verdict = "killed by " + c
                    break
                if r.returncode != 0:
                    verdict = "crashed " + c
                    break
            diff = "".join(difflib.unified_diff(base.splitlines(True), new.splitlines(True), "a/" + rel, "b/" + rel, n=2))
            line = [l for l in diff.splitlines() if l.startswith("+") and not l.startswith("+++")]
            print("%4d %-8s %-22s %s" % (k, kind, verdict, (line[0][:110] if line else "")), flush=True)
            if verdict.startswith("killed"):
                killed += 1
            else:
                if verdict.startswith("crashed"):
                    crashed += 1
                elif verdict.startswith("hung"):
                    hung += 1
                else:
                    survived += 1
                with open(os.path.join(OUT, "%s_%04d_%s.diff" % (tag, k, verdict.split()[0])), "w") as f:
                    f.write(diff)
    finally:
        remove_worktree(scratch)
    print("killed %d  survived %d  crashed %d  hung %d  (unchanged text %d)" % (killed, survived, crashed, hung, same))


if __name__ == "__main__":
    main()
