"""C08: ServerDispatch specification against the real ProtocolHandler / MCPServer."""
import json
import os
import random

from harness import tlc, validate, par, gen
from harness.common import Machinery
from harness.drivers import server_drv

# deviation constants describing the current tree
TREE = {"NotifErrorCrashes": False, "NonsenseThrough": False, "NoneThrough": True}


def _run(chunk):
    import logging
    logging.disable(logging.CRITICAL)
    return server_drv.run_dispatch_cases(chunk)


def all_cases(rng, quick):
    methods = list(server_drv.METHOD_CLASSES) + server_drv.std_notification_names()
    cases = []
    for kind in ("request", "notification"):
        for m in methods:
            for p in server_drv.PSHAPES:
                ids = server_drv.IDCLASSES[:-1] if kind == "request" else ["none"]
                for idc in ids:
                    for typed in (False, True):
                        # concrete variants of the classes (other ids of the class, other unregistered method
                        # names, extra members in the params): one in quick, fifteen in thorough
                        for v in (range(1) if quick else range(15)):
                            cases.append({"kind": kind, "mclass": m, "pshape": p, "idc": idc if kind == "request" else "intPos", "typed": typed, "v": v})
    # neither requests nor notifications: stray responses, lists, a bare message
    for m in ("strayResponse", "strayError", "strayList", "strayEmptyList", "strayBare"):
        for idc in server_drv.IDCLASSES[:-1]:
            cases.append({"kind": "request", "mclass": m, "pshape": "absent", "idc": idc, "typed": False, "v": 0})
    return cases


def check_c08(ctx):
    quick = ctx.tier == "quick"
    ctx.cov["rule"] = ("cases = (kind, method class, params shape, id class, typed/legacy message class): requests and notifications over core methods, "
                       "tool/resource methods (returning / raising / nonsense / unknown / unhashable name), custom handlers (ok / raises / nonsense / returns none), "
                       "every MessageMethod.NOTIFICATION_* name (three of them registered: core, raising, answering), unregistered and random names; "
                       "distinct_nontrivial = distinct cases whose message could be built")
    ctx.assumptions += [
        "the configured server (harness/drivers/server_drv.py:_mk_server) stands for 'a server built on the library'",
        "for inputs outside the statement's code table (wrong-shaped params, null arguments, unhashable names) only 'exactly one response with the request's id' is required",
    ]
    names = server_drv.std_notification_names()
    gen.write_module("MC_ServerDispatch", ["ServerDispatch"], {"GenStdNotifs": set(names)})
    tmod = gen.write_module("MC_ServerDispatchTrace", ["ServerDispatchTrace"], {"GenStdNotifs": set(names)})
    mcmod = os.path.join(gen.GEN, "MC_ServerDispatch.tla")
    r = tlc.run_tlc(mcmod, "mc/ServerDispatch.cfg", work=os.path.join(ctx.work, "mc"), coverage=True, timeout=600)
    ctx.add_model_run("mc/ServerDispatch.cfg (design: no deviation)", r)
    if r.invariant_violated:
        print("MODEL-STALE: the deviation-free ServerDispatch violates %s" % r.invariant_violated)
    cov = r.coverage()
    for a in ("Lookup", "Invoke"):
        if cov.get(a, (0, 0))[1] == 0:
            raise Machinery("action %s never taken" % a)
    r2 = tlc.run_tlc(mcmod, "mc/ServerDispatch_tree.cfg", work=os.path.join(ctx.work, "mc"), timeout=600)
    ctx.add_model_run("mc/ServerDispatch_tree.cfg (deviations of the tree)", r2)
    if set(r2.invariant_violated) - {"OneResponsePerRequest"}:
        print("MODEL-STALE: tree model violates %s" % r2.invariant_violated)
    rng = random.Random(ctx.seed + 8)
    cases = all_cases(rng, quick)
    chunks = [cases[i:i + 300] for i in range(0, len(cases), 300)]
    recs = [x for ch in par.pmap(_run, chunks) for x in ch]
    # overlapping requests on one server: the first request's handler waits while a second is served
    pairs = []
    for ma in ("slowTool", "slowToolRaises", "slowResource"):
        for mb in ("toolsCallOk", "toolsCallRaises", "toolsCallUnknown", "resReadOk", "ping", "toolsList", "customOk", "unregistered", "slowTool" if False else "initialize"):
            ia, ib = rng.sample(server_drv.IDCLASSES[:-1], 2)
            pairs.append((ma, ia, mb, ib))
    over = server_drv.run_overlapping_dispatch(pairs)
    recs += [{k: v for k, v in x.items() if k != "overlap"} for x in over]
    cases += [dict({k: x[k] for k in ("kind", "mclass", "pshape", "idc", "typed")}, v=0) for x in over]
    consts = dict(TREE)
    consts["StdNotifs"] = ("<-", "GenStdNotifs")
    res = validate.validate(tmod, recs, consts, work=os.path.join(ctx.work, "val"), chunk=4000)
    if res["rejected"]:
        raise Machinery("%d cases not consumed" % len(res["rejected"]))
    ctx.cov["states"] += res["states"]
    ctx.cov["transitions"] += res["transitions"]
    ctx.cov["traces_validated_against_impl"] += len(recs)
    ctx.cov["evaluations"] += len(recs)
    ctx.cov["distinct_nontrivial"] = sum(1 for x in recs if x["obs"]["built"])
    ctx.cov["samples"] = [recs[3], recs[len(recs) // 2], recs[-2]]
    drift = 0
    for i, cls in sorted(res["failed"].items()):
        x = recs[i]
        for c in cls:
            if c == x["mclass"]:
                continue
            if c == "Model":
                drift += 1
                continue
            sig = "clause=%s observed=%s method=%s id=%s" % (c, "raised" if x["obs"]["raised"] else x["obs"]["shape"], x["mclass"], x["idc"] if x["kind"] == "request" else "-")
            if c == "OneResponsePerRequest" and x["obs"]["shape"] == "none" and not x["obs"]["raised"] and x["mclass"] in ("customNone", "notifications/initialized"):
                sig = "clause=OneResponsePerRequest observed=no-response handler-returned-none"
            ctx.report(sig, "%s %s params=%s id=%s -> %s" % (x["kind"], x["mclass"], x["pshape"], x["idc"], x["obs"]),
                       {"kind": "dispatch_case", "case": {k: x.get(k, 0) for k in ("kind", "mclass", "pshape", "idc", "typed", "v")}, "clause": c})
    ctx.cov["drift"] = drift
    if drift:
        ctx.note("%d cases differ from the implementation-shaped model without breaking a clause (drift)" % drift)
