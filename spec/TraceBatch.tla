---------------------------- MODULE TraceBatch ----------------------------
(* Common plumbing of the trace specifications: one JVM validates an array of traces read  *)
(* from TRACE_FILE; results leave through TLC registers and are written to OUT_FILE by the  *)
(* post-condition.  Register 1: ids of traces consumed completely; 2: longest matched      *)
(* prefix per trace; 3: <<tid, clause, detail>> for every clause that failed.              *)
EXTENDS Naturals, Sequences, TLC, Json, IOUtils

Traces == JsonDeserialize(IOEnv.TRACE_FILE)
NT == Len(Traces)

ASSUME TLCSet(1, {})
ASSUME TLCSet(2, [i \in 1..NT |-> 0])
ASSUME TLCSet(3, {})

Accept(t) == TLCSet(1, TLCGet(1) \cup {t})
Reached(t, k) == (k > TLCGet(2)[t]) => TLCSet(2, [TLCGet(2) EXCEPT ![t] = k])
Fail(t, clause, detail) == TLCSet(3, TLCGet(3) \cup {<<t, clause, detail>>})
\* clauses: sequence of <<name, boolean>>
JudgeAll(t, clauses, detail) ==
  \A i \in 1..Len(clauses) : clauses[i][2] \/ Fail(t, clauses[i][1], detail)

Post ==
  JsonSerialize(IOEnv.OUT_FILE,
     [n |-> NT, accepted |-> TLCGet(1), maxl |-> TLCGet(2), failed |-> TLCGet(3)])
=============================================================================
