#!/bin/bash
# seedall.sh  re-run every stored seeded change against the check named in seeded/RESULTS.json
# (quick tier) and write seeded/LAST_RUN.json.  Needs a clean /repo; restores it after each change.
cd /verif
/venv/bin/python - <<'PY' > /tmp/seedall.list
import json
r = json.load(open('/verif/seeded/RESULTS.json'))
for k in sorted(r):
    for c in r[k]["caught_by"].replace(" ", "").split(","):
        if c.startswith("C"):
            print(k, c)
PY
: > /tmp/seedall.out
while read name pid; do
  out=$(harness/seedrun.sh $pid $name 2>&1 | head -1)
  echo "$out" | tee -a /tmp/seedall.out
done < /tmp/seedall.list
/venv/bin/python - <<'PY'
import json, re, time
rows = {}
for l in open('/tmp/seedall.out'):
    m = re.match(r"seedrun (\S+): check (\S+) rc=(\d+)", l)
    if m:
        rows.setdefault(m.group(1), {})[m.group(2)] = int(m.group(3))
json.dump({"when": time.strftime("%Y-%m-%d %H:%M:%S"), "rc_by_seed_and_check": rows,
           "all_detected": all(1 in v.values() for v in rows.values())}, open('/verif/seeded/LAST_RUN.json', 'w'), indent=1)
print("seeds:", len(rows), "detected:", sum(1 for v in rows.values() if 1 in v.values()))
PY
