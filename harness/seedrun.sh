#!/bin/bash
# seedrun.sh <pid> <seeded name> [tier]  apply a seeded change to /repo, run the check, undo
pid=$1; name=$2; tier=${3:-quick}
cd /repo && git status --short | grep -q . && { echo "/repo not clean"; exit 2; }
git -C /repo apply /verif/seeded/$name/patch.diff || exit 3
cd /verif && ./check $pid --tier $tier > /tmp/seedrun_$name.log 2>&1; rc=$?
git -C /repo checkout -- .
echo "seedrun $name: check $pid rc=$rc"; grep -E "^(VIOLATION|KNOWN|MACHINERY|MODEL)" /tmp/seedrun_$name.log | cut -c1-260 | head -5; tail -1 /tmp/seedrun_$name.log
