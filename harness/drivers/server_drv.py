"""Drivers for SessionStore (C19), ServerDispatch (C08) and the server side of Handshake (C04):
real InMemorySessionManager / MCPServer / ProtocolHandler with a model clock."""
import asyncio
import json


class Clock:
    def __init__(self):
        self.now = 0

    def time(self):
        return float(self.now)


def enc_version(v):
    """version values as strings for TLC"""
    if v is None:
        return "null"
    if isinstance(v, str):
        return v
    return "%s:%r" % (type(v).__name__, v)


VERSION_VALUES = {"absent": None, "null": None}


def _mk_server():
    from chuk_mcp.server.server import MCPServer

    srv = MCPServer("verif", "1.0")

    async def ok_tool(**kw):
        return "done"

    async def raising_tool(**kw):
        raise RuntimeError("tool exploded")

    async def keyerror_tool(**kw):
        return {"a": 1}["missing"]

    async def res_keyerror():
        raise KeyError("file:///keyerror")

    async def nonsense_tool(**kw):
        return object()

    async def res_ok():
        return "content é"

    async def res_raises():
        raise OSError("disk gone")

    srv.register_tool("ok", ok_tool, {"type": "object"}, "fine")
    srv.register_tool("raises", raising_tool, {"type": "object"}, "explodes")
    srv.register_tool("nonsense", nonsense_tool, {"type": "object"}, "returns an object()")
    srv.register_tool("keyerror", keyerror_tool, {"type": "object"}, "raises KeyError")
    srv.register_resource("file:///keyerror", res_keyerror)
    srv.register_resource("file:///ok", res_ok)
    srv.register_resource("file:///raises", res_raises)
    ph = srv.protocol_handler

    async def custom_ok(message, session_id):
        return ph.create_response(getattr(message, "id", None), {"custom": True}), None

    async def custom_raises(message, session_id):
        raise ValueError("custom handler failed")

    async def custom_keyerror(message, session_id):
        raise KeyError(getattr(message, "method", "?"))

    async def custom_nonsense(message, session_id):
        return {"not": "a tuple"}

    async def custom_none(message, session_id):
        return None, None

    async def custom_ack(message, session_id):
        # serves the request and the notification form alike; the unified class accepts a null id
        from chuk_mcp.protocol.messages.json_rpc_message import JSONRPCMessage
        return JSONRPCMessage.create_response(getattr(message, "id", None), {"ack": True}), None

    async def custom_stray(message, session_id):
        if getattr(message, "id", None) is None:
            return {"stray": "object"}, None
        return ph.create_response(message.id, {"custom": True}), None

    ph.register_method("custom/ack", custom_ack)
    ph.register_method("custom/stray", custom_stray)
    ph.register_method("custom/ok", custom_ok)
    ph.register_method("custom/raises", custom_raises)
    ph.register_method("custom/nonsense", custom_nonsense)
    ph.register_method("custom/keyerror", custom_keyerror)
    ph.register_method("custom/none", custom_none)
    # a standard notification name that IS registered and whose handler fails / answers
    ph.register_method("notifications/roots/list_changed", custom_raises)
    ph.register_method("notifications/message", custom_ok)
    return srv


def run_session_ops(ops, use_handler=True):
    """Execute an abstract operation sequence; returns the event list for SessionStoreTrace."""
    from chuk_mcp.server.session import memory as mem
    from chuk_mcp.protocol.messages.json_rpc_message import parse_message

    clock = Clock()
    old_time = mem.time
    mem.time = clock
    try:
        srv = _mk_server()
        ph = srv.protocol_handler
        sm = ph.session_manager
        names = {}      # real id -> abstract index
        real = {}       # abstract index -> real id
        loop = asyncio.new_event_loop()

        def absid(rid):
            if rid not in names:
                names[rid] = len(names) + 1
                real[names[rid]] = rid
            return names[rid]

        def realid(s):
            return real.get(s, "no-such-session-%s" % s)

        def rec(sid, info):
            ci = info.client_info
            c = ci.get("name", "?") if isinstance(ci, dict) else "?"
            return [absid(sid), c, enc_version(info.protocol_version), int(info.created_at), int(info.last_activity)]

        def store():
            return sorted(rec(k, v) for k, v in sm.sessions.items())

        evs = []
        nreq = 0
        for op in ops:
            o = op["op"]
            e = dict(op)
            try:
                if o == "Create":
                    sid = sm.create_session({"name": op["c"], "version": "1"}, op["v"])
                    e["ret"] = absid(sid)
                elif o == "Get":
                    info = sm.get_session(realid(op["s"]))
                    e["ret"] = "null" if info is None else rec(realid(op["s"]), info)
                elif o == "Touch":
                    e["ret"] = bool(sm.update_activity(realid(op["s"])))
                elif o == "Delete":
                    e["ret"] = bool(sm.delete_session(realid(op["s"])))
                elif o == "Cleanup":
                    e["ret"] = int(sm.cleanup_expired(op["a"]))
                elif o == "List":
                    m = sm.list_sessions()
                    e["ret"] = sorted(rec(k, v) for k, v in m.items())
                    # mutate the returned map: add an entry, remove every other
                    for k in list(m)[::2]:
                        del m[k]
                    m["intruder"] = None
                elif o == "Count":
                    e["ret"] = int(sm.get_session_count())
                elif o == "Clear":
                    e["ret"] = int(sm.clear_all_sessions())
                elif o == "Tick":
                    clock.now += op["d"]
                elif o == "HandleInitialize":
                    nreq += 1
                    params = {"clientInfo": {"name": op["c"], "version": "1"}, "capabilities": {}}
                    v = op["v"]
                    if v != "absent":
                        params["protocolVersion"] = op.get("vreal", v)
                    msg = parse_message({"jsonrpc": "2.0", "id": nreq, "method": "initialize", "params": params})
                    sid_arg = realid(op["s"]) if op.get("s") else None
                    resp, new_sid = loop.run_until_complete(ph.handle_message(msg, sid_arg))
                    d = resp.model_dump(exclude_none=True) if resp is not None else {}
                    if isinstance(d.get("result"), dict) and new_sid:
                        e["ret"] = {"kind": "result", "version": enc_version(d["result"].get("protocolVersion")), "sid": absid(new_sid), "idok": d.get("id") == nreq}
                    else:
                        e["ret"] = {"kind": "error", "version": "", "sid": 0, "idok": d.get("id") == nreq}
                    e["v"] = enc_version(op.get("vreal", v)) if v != "absent" else "absent"
                elif o == "HandleRequest":
                    nreq += 1
                    if op.get("m", True):
                        body = {"jsonrpc": "2.0", "id": nreq, "method": op.get("method", "ping")}
                        if op.get("notif"):
                            del body["id"]
                        msg = parse_message(body)
                    else:
                        msg = parse_message({"jsonrpc": "2.0", "id": nreq, "result": {}})
                    try:
                        loop.run_until_complete(ph.handle_message(msg, realid(op["s"])))
                    except Exception:  # judged by C08, not here
                        pass
                else:
                    raise ValueError(o)
            except ValueError:
                raise
            except Exception as ex:
                # whatever the store / the handler raised or returned in a shape the driver cannot
                # project is an observation (the specification will not be able to explain it)
                e["ret"] = "raised:" + type(ex).__name__
            try:
                e["store"] = store()
            except Exception as ex:
                e["store"] = "broken:" + type(ex).__name__
            e["clock"] = clock.now
            evs.append(e)
        loop.close()
        return evs
    finally:
        mem.time = old_time


# ---------------------------------------------------------------------------
# ServerDispatch cases (C08)

def std_notification_names():
    from chuk_mcp.protocol.messages.message_method import MessageMethod

    return sorted(m.value for m in MessageMethod if m.value.startswith("notifications/"))


METHOD_CLASSES = {
    # class -> (method, params builder key)
    "initialize": "initialize",
    "ping": "ping",
    "toolsList": "tools/list",
    "toolsCallOk": "tools/call",
    "toolsCallRaises": "tools/call",
    "toolsCallNonsense": "tools/call",
    "toolsCallKeyError": "tools/call",
    "resReadKeyError": "resources/read",
    "customKeyError": "custom/keyerror",
    "toolsCallUnknown": "tools/call",
    "toolsCallUnhashable": "tools/call",
    "resourcesList": "resources/list",
    "resReadOk": "resources/read",
    "resReadRaises": "resources/read",
    "resReadUnknown": "resources/read",
    "customOk": "custom/ok",
    "customAck": "custom/ack",
    "customStray": "custom/stray",
    "customRaises": "custom/raises",
    "customNonsense": "custom/nonsense",
    "customNone": "custom/none",
    "unregistered": "prompts/list",
    "random": "zz/é   random",
}

PSHAPES = ["absent", "null", "ok", "wrongTypes", "argsNull", "argsList", "empty"]
IDCLASSES = ["int0", "intNeg", "intPos", "intBig", "strEmpty", "strDigit", "strText", "none"]


ID_VARIANTS = {"int0": [0], "intNeg": [-7, -1, -2**63, -2**70], "intPos": [41, 1, 2**31, 2**53 + 1], "intBig": [2**63 + 5, 2**64 - 1, 2**64, 10**30],
               "strEmpty": [""], "strDigit": ["123", "0", "007", "-5"], "strText": ["req-\u00e9", "null", "true", " ", "a\nb", "\U0001F600", "x" * 300]}
RANDOM_METHODS = ["zz/\u00e9   random", "x", " ", "tools/call ", "Tools/Call", "TOOLS/LIST", "ping\n", "notifications/", "rpc.discover", "initialize\u0000", "\U0001F600", "a" * 500,
                  "notifications/unknown/thing", "tools/call/extra", "$/cancelRequest"]


def concrete_id(idc, v=0):
    xs = ID_VARIANTS[idc]
    return xs[v % len(xs)]


def _params(mclass, pshape):
    if pshape == "absent":
        return "ABSENT"
    if pshape == "null":
        return None
    if pshape == "empty":
        return {}
    if pshape == "wrongTypes":
        return {"name": 12, "uri": ["x"], "arguments": "str", "protocolVersion": 12, "clientInfo": "x"}
    base = {}
    if mclass.startswith("toolsCall"):
        base["name"] = {"toolsCallOk": "ok", "toolsCallRaises": "raises", "toolsCallNonsense": "nonsense", "toolsCallKeyError": "keyerror", "toolsCallUnknown": "nope", "toolsCallUnhashable": ["a"]}[mclass]
        base["arguments"] = {"x": 1}
    if mclass.startswith("resRead"):
        base["uri"] = {"resReadOk": "file:///ok", "resReadRaises": "file:///raises", "resReadKeyError": "file:///keyerror", "resReadUnknown": "file:///nope"}[mclass]
    if mclass == "initialize":
        base = {"protocolVersion": "2025-06-18", "clientInfo": {"name": "c", "version": "1"}, "capabilities": {}}
    if pshape == "argsNull":
        base["arguments"] = None
    if pshape == "argsList":
        base["arguments"] = [1, 2]
    return base


def run_dispatch_cases(cases):
    """cases: list of dicts {kind, mclass | notif name, pshape, idc, typed}. Returns records."""
    from chuk_mcp.protocol.messages.json_rpc_message import parse_message, JSONRPCRequest, JSONRPCNotification
    from chuk_mcp.server.session import memory as mem

    out = []
    loop = asyncio.new_event_loop()
    srv = _mk_server()
    ph = srv.protocol_handler
    for c in cases:
        mclass = c["mclass"]
        method = METHOD_CLASSES.get(mclass, mclass)   # std notification names are used verbatim
        v = c.get("v", 0)
        if mclass == "random":
            method = RANDOM_METHODS[v % len(RANDOM_METHODS)]
        body = {"jsonrpc": "2.0", "method": method}
        p = _params(mclass, c["pshape"])
        if p != "ABSENT":
            body["params"] = p
        if c["kind"] == "request":
            body["id"] = concrete_id(c["idc"], v)
        if v and isinstance(body.get("params"), dict) and c["pshape"] == "ok":
            body["params"] = dict(body["params"], _meta={"progressToken": v}, extra={"n": None, "l": [v]})
        try:
            if mclass.startswith("stray"):
                from chuk_mcp.protocol.messages.json_rpc_message import JSONRPCMessage
                rid = concrete_id(c["idc"], v)
                one = parse_message({"jsonrpc": "2.0", "id": rid, "result": {"x": 1}})
                msg = {"strayResponse": one,
                       "strayError": parse_message({"jsonrpc": "2.0", "id": rid, "error": {"code": -32000, "message": "m"}}),
                       "strayList": [one, parse_message({"jsonrpc": "2.0", "method": "ping", "id": rid})],
                       "strayEmptyList": [],
                       "strayBare": JSONRPCMessage(jsonrpc="2.0")}[mclass]
            elif c.get("typed"):
                msg = (JSONRPCRequest if c["kind"] == "request" else JSONRPCNotification).model_validate(body)
            else:
                msg = parse_message(body)
        except Exception as e:
            # the message itself cannot be built (e.g. params null for the typed class): not a
            # well-formed message, outside the quantifier
            out.append(dict(c, obs={"built": False, "raised": False, "exc": type(e).__name__, "shape": "none", "idok": False, "iserr": False, "code": 0, "lineok": False}))
            continue
        nsess = len(ph.session_manager.sessions)
        obs = {"built": True, "raised": False, "exc": "", "shape": "none", "idok": False, "iserr": False, "code": 0, "lineok": False}
        try:
            res = loop.run_until_complete(ph.handle_message(msg, None))
        except BaseException as e:  # noqa
            if isinstance(e, (KeyboardInterrupt, SystemExit)):
                raise
            obs["raised"] = True
            obs["exc"] = type(e).__name__
            out.append(dict(c, obs=obs))
            continue
        if not (isinstance(res, tuple) and len(res) == 2):
            obs["shape"] = "nonsense"
        else:
            resp = res[0]
            if resp is None:
                obs["shape"] = "none"
            elif hasattr(resp, "model_dump_json"):
                obs["shape"] = "response"
                try:
                    line = resp.model_dump_json(exclude_none=True)
                    d = json.loads(line)
                    obs["lineok"] = d.get("jsonrpc") == "2.0" and (("result" in d) != ("error" in d)) and "method" not in d
                    want = body.get("id")
                    obs["idok"] = "id" in d and d["id"] == want and type(d["id"]) is type(want)
                    if "error" in d:
                        obs["iserr"] = True
                        code = d["error"].get("code")
                        obs["code"] = code if isinstance(code, int) and abs(code) < 2**31 else 0
                except Exception as e:
                    obs["exc"] = type(e).__name__
            else:
                obs["shape"] = "nonsense"
        out.append(dict(c, obs=obs))
        ph.session_manager.sessions.clear()
    loop.close()
    return out



def run_overlapping_dispatch(pairs):
    """two requests overlapping on ONE server: the first one's tool (or resource / custom handler)
    waits until the second request has been answered.  pairs: list of (mclassA, idcA, mclassB, idcB).
    Returns the per-request records (same shape as run_dispatch_cases)."""
    from chuk_mcp.protocol.messages.json_rpc_message import parse_message

    out = []

    async def one(ma, ia, mb, ib):
        srv = _mk_server()
        ph = srv.protocol_handler
        gate = asyncio.Event()

        async def slow_tool(**kw):
            await gate.wait()
            return "slow done"

        async def slow_raises(**kw):
            await gate.wait()
            raise RuntimeError("slow tool exploded")

        async def slow_res():
            await gate.wait()
            return "slow content"

        srv.register_tool("slow", slow_tool, {"type": "object"}, "waits")
        srv.register_tool("slowraises", slow_raises, {"type": "object"}, "waits then raises")
        srv.register_resource("file:///slow", slow_res)

        def body(m, idc):
            rid = concrete_id(idc)
            if m == "slowTool":
                return {"jsonrpc": "2.0", "id": rid, "method": "tools/call", "params": {"name": "slow", "arguments": {}}}
            if m == "slowToolRaises":
                return {"jsonrpc": "2.0", "id": rid, "method": "tools/call", "params": {"name": "slowraises", "arguments": {}}}
            if m == "slowResource":
                return {"jsonrpc": "2.0", "id": rid, "method": "resources/read", "params": {"uri": "file:///slow"}}
            b = {"jsonrpc": "2.0", "id": rid, "method": METHOD_CLASSES[m]}
            p = _params(m, "ok")
            if p != "ABSENT":
                b["params"] = p
            return b

        res = {}

        async def call(tag_, b):
            try:
                r = await ph.handle_message(parse_message(b), None)
                res[tag_] = ("ok", r, b)
            except BaseException as e:  # noqa
                res[tag_] = ("raised", type(e).__name__, b)

        ta = asyncio.ensure_future(call("A", body(ma, ia)))
        await asyncio.sleep(0)
        await asyncio.sleep(0)
        tb = asyncio.ensure_future(call("B", body(mb, ib)))
        await tb
        gate.set()
        await ta
        recs = []
        for tag_, (m, idc) in (("A", (ma, ia)), ("B", (mb, ib))):
            st, r, b = res[tag_]
            obs = {"built": True, "raised": st == "raised", "exc": r if st == "raised" else "", "shape": "none", "idok": False, "iserr": False, "code": 0, "lineok": False}
            if st == "ok" and isinstance(r, tuple) and len(r) == 2 and r[0] is not None and hasattr(r[0], "model_dump_json"):
                d = json.loads(r[0].model_dump_json(exclude_none=True))
                obs["shape"] = "response"
                obs["lineok"] = d.get("jsonrpc") == "2.0" and (("result" in d) != ("error" in d))
                obs["idok"] = "id" in d and d["id"] == b["id"] and type(d["id"]) is type(b["id"])
                if "error" in d:
                    obs["iserr"] = True
                    c = d["error"].get("code")
                    obs["code"] = c if isinstance(c, int) and abs(c) < 2**31 else 0
            elif st == "ok" and isinstance(r, tuple) and len(r) == 2 and r[0] is None:
                obs["shape"] = "none"
            elif st == "ok":
                obs["shape"] = "nonsense"
            recs.append({"kind": "request", "mclass": {"slowTool": "toolsCallOk", "slowToolRaises": "toolsCallRaises", "slowResource": "resReadOk"}.get(m, m), "pshape": "ok", "idc": idc, "typed": False,
                         "overlap": tag_ + ":" + ma + "+" + mb, "obs": obs})
        return recs

    async def main():
        for p in pairs:
            out.extend(await one(*p))

    asyncio.run(main())
    return out
