"""C03 (client side of Handshake) and C04 (server side + pairing)."""
import json
import os
import random

from harness import tlc, validate, par
from harness.common import Machinery
from harness.drivers import handshake_drv

C03_CLAUSES = ["ProposalRule", "SuccessOnlyOffered", "MismatchRaises", "NoInitializedUnlessAccepted", "NoInitializedOnFailure",
               "ExactlyOneInitialized", "BatchingTracksVersion", "FailureNeverOk", "Finished"]
C04_CLAUSES = ["AnswerSupported", "EchoWhenSupported", "SessionCarriesAnswer", "AgreedOrMismatch", "Finished", "Answers"]

UNIVERSE = ["2025-06-18", "2025-03-26", "2024-11-05", "2026-01-01", "2024-01-01"]
TREE = {"EchoAnything": False}


def older_than_cutoff(v):
    """the specification's batching rule on well-formed dates (Versioning: Supports)"""
    y, m, d = v.split("-")
    return (int(y), int(m), int(d)) < (2025, 6, 18)


def trace_constants(paired, versions):
    from chuk_mcp.protocol.types import versioning as V
    c = {"U": set(), "Batching": {v for v in versions if _wf(v) and older_than_cutoff(v)},
         "ServerSup": set(V.SUPPORTED_VERSIONS), "Latest": V.CURRENT_VERSION, "Paired": paired}
    c.update(TREE)
    return c


def _wf(v):
    import re
    return isinstance(v, str) and re.match(r"^\d{4}-\d{2}-\d{2}$", v) is not None


def _run(chunk):
    return handshake_drv.run_cases(chunk)


def _run_server(chunk):
    return handshake_drv.run_server_cases(chunk)


def model_check(ctx, cfg):
    r = tlc.run_tlc("MC_Handshake", cfg, work=os.path.join(ctx.work, "mc"), coverage=True, timeout=900)
    ctx.add_model_run(cfg, r)
    if r.invariant_violated:
        print("MODEL-STALE: %s violates %s in the model" % (cfg, r.invariant_violated))
    cov = r.coverage()
    for a in ("Propose", "ServerAnswers", "Decide", "SendInitialized", "Return"):
        if cov.get(a, (0, 0))[1] == 0:
            raise Machinery("action %s never taken in %s" % (a, cfg))


def validate_traces(ctx, pid, traces, cases, paired, label, clauses):
    versions = set()
    for t in traces:
        versions.update(t["sup"])
        for e in t["ev"]:
            for k in ("v", "version"):
                if isinstance(e.get(k), str):
                    versions.add(e[k])
            if isinstance(e.get("a"), dict) and isinstance(e["a"].get("v"), str):
                versions.add(e["a"]["v"])
    res = validate.two_stage("HandshakeTrace", traces, trace_constants(paired, versions), work=os.path.join(ctx.work, "val_" + label), chunk=3000)
    ctx.cov["states"] += res["states"]
    ctx.cov["transitions"] += res["transitions"]
    ctx.cov["traces_validated_against_impl"] += len(traces)
    ctx.cov["evaluations"] += len(traces)
    ctx.cov["drift"] += res["drift"]
    if res["drift"]:
        ctx.note("%s: %d of %d traces left the implementation model" % (label, res["drift"], len(traces)))
    for i, t in enumerate(traces):
        v = res["verdict"][i]
        if v["stage"] == 0:
            raise Machinery("malformed handshake trace: %s" % json.dumps(t)[:500])
        for cl in v["clauses"]:
            if cl in clauses:
                a = next((e["a"] for e in t["ev"] if e["e"] == "Answer"), {})
                sig = "clause=%s answer=%s" % (cl, a.get("k"))
                ctx.report(sig, json.dumps(t)[:400], {"kind": "handshake", "case": cases[i], "paired": paired, "clause": cl})
    return res


def check_c03(ctx):
    quick = ctx.tier == "quick"
    ctx.cov["rule"] = ("cases = (ordered supported list over 3 real + 2 invented versions, preferred version in/not in list/absent/unknown, tracked client or not, "
                       "server answer: each version of the universe, an unknown version string, 3 malformed results, JSON-RPC errors of 4 code classes with/without "
                       "a version mention, silence); emitted by TLC from the Handshake state graph (all 81 900 in thorough, seeded third in quick); "
                       "distinct_nontrivial = distinct cases executed")
    ctx.assumptions += ["the tracked client is a real, un-entered StdioClient; silence is 2 s of virtual time",
                        "for malformed results, JSON-RPC errors and silence only 'fails, and no initialized notification' is required (exception class free)"]
    model_check(ctx, "mc/Handshake_scripted.cfg")
    g = tlc.run_tlc("GenHandshake", "mc/GenHandshake.cfg", work=os.path.join(ctx.work, "gen"), workers=1, timeout=900)
    cases = g.printed("PATH")
    if len(cases) < 1000:
        raise Machinery("generation printed only %d cases" % len(cases))
    ctx.cov["model_runs"].append({"config": "mc/GenHandshake.cfg", "paths_emitted": len(cases)})
    rng = random.Random(ctx.seed + 3)
    if quick:
        rng.shuffle(cases)
        cases = cases[: len(cases) // 3]
    chunks = [cases[i:i + 500] for i in range(0, len(cases), 500)]
    traces = [t for ch in par.pmap(_run, chunks) for t in ch]
    validate_traces(ctx, "C03", traces, cases, False, "scripted", set(C03_CLAUSES))
    ctx.cov["distinct_nontrivial"] = len({json.dumps(c, sort_keys=True) for c in cases})
    ctx.cov["samples"] = [traces[0], traces[len(traces) // 2]]
    # growth of the specification: the high-level client that wraps this handshake
    if os.environ.get("VERIF_SKIP_GROWTH") != "1":          # development switch of harness/mutate.py
        from harness.props import clientsession
        clientsession.growth(ctx, quick)


def check_c04(ctx):
    quick = ctx.tier == "quick"
    ctx.cov["rule"] = ("server side: one initialize per requested protocolVersion value - each supported version, every calendar-shaped string dddd-dd-dd of a 200-year window "
                       "(thorough: all 2 000 000 incl. non-calendar days; quick: seeded 4 000 + the neighbours of every supported version), malformed strings, non-strings, absent; "
                       "pairing: the real client against the real ProtocolHandler for every supported list x preferred version of the Handshake instance; "
                       "distinct_nontrivial = distinct requested values + distinct pairings")
    ctx.assumptions += ["'supports' is the tree's SUPPORTED_VERSIONS (extracted on every run)"]
    model_check(ctx, "mc/Handshake_paired.cfg")
    # server side
    rng = random.Random(ctx.seed + 4)
    from chuk_mcp.protocol.types import versioning as V
    vals = list(V.SUPPORTED_VERSIONS) + ["ABSENT", "", "banana", "2025-6-18", "2025-06-18 ", " 2025-06-18", "2025-06-18\n", "2025/06/18", "20250618", "2025-06-018",
                                         "latest", "draft", 12, 2025, None, True, 1.5, ["2025-06-18"], {"v": "2025-06-18"}, "２０２５-06-18"]
    for s in V.SUPPORTED_VERSIONS:
        y, m, d = map(int, s.split("-"))
        for dy, dm, dd in ((0, 0, 1), (0, 0, -1), (0, 1, 0), (0, -1, 0), (1, 0, 0), (-1, 0, 0)):
            vals.append("%04d-%02d-%02d" % (y + dy, max(0, m + dm), max(0, d + dd)))
    if quick:
        for _ in range(4000):
            vals.append("%04d-%02d-%02d" % (rng.randrange(1990, 2190), rng.randrange(0, 100), rng.randrange(0, 100)))
    else:
        for y in range(1990, 2190):
            for m in range(0, 100):
                for d in range(0, 100):
                    vals.append("%04d-%02d-%02d" % (y, m, d))
    chunks = [vals[i:i + 20000] for i in range(0, len(vals), 20000)]
    recs = [x for ch in par.pmap(_run_server, chunks, chunksize=1) for x in ch]
    res = validate.validate("HandshakeServerTrace", recs, trace_constants(True, set()), work=os.path.join(ctx.work, "val_srv"), chunk=60000, timeout=3000)
    if res["rejected"]:
        raise Machinery("server cases not consumed")
    ctx.cov["states"] += res["states"]
    ctx.cov["transitions"] += res["transitions"]
    ctx.cov["traces_validated_against_impl"] += len(recs)
    ctx.cov["evaluations"] += len(recs)
    for i, cls in sorted(res["failed"].items()):
        x = recs[i]
        for c in cls:
            if c in C04_CLAUSES:
                kind = "supported" if x["req"] in V.SUPPORTED_VERSIONS else ("wellformed-unsupported" if _wf(x["req"]) else "malformed")
                ctx.report("clause=%s request=%s" % (c, kind), "requested %r -> %s" % (x["req"], x), {"kind": "handshake_server", "value": x["req"], "clause": c})
    # re-initialize on a live session: every ordered pair of requested-version classes, the second
    # initialize carrying the first session's id (validated against SessionStore: exactly one new
    # session per initialize, recording the answered version)
    from harness.props import session as sess
    from harness.drivers import server_drv
    classes = [(v, None) for v in V.SUPPORTED_VERSIONS] + [("unsupported", "2031-01-01"), ("unsupported", "garbage"), ("unsupported", 7), ("absent", None)]
    seqs = []
    for v1, r1 in classes:
        for v2, r2 in classes:
            for carry in (1, 0, 5):
                ops = []
                for (v, r), s in (((v1, r1), 0), ((v2, r2), carry)):
                    op = {"op": "HandleInitialize", "c": "c1" if s == 0 else "c2", "v": v, "s": s}
                    if r is not None:
                        op["vreal"] = r
                    ops.append(op)
                ops.append({"op": "Get", "s": 1})
                ops.append({"op": "Get", "s": 2})
                seqs.append(ops)
    st = [server_drv.run_session_ops(o) for o in seqs]
    rs = validate.validate("SessionStoreTrace", st, sess.trace_constants(), work=os.path.join(ctx.work, "val_reinit"), chunk=500)
    ctx.cov["states"] += rs["states"]
    ctx.cov["transitions"] += rs["transitions"]
    ctx.cov["traces_validated_against_impl"] += len(st)
    ctx.cov["evaluations"] += len(st)
    for i, k in sorted(rs["rejected"].items()):
        ev = st[i][k - 1] if 0 < k <= len(st[i]) else {}
        ctx.report("clause=SessionCarriesAnswer reinitialize op=%s" % ev.get("op"), "event %d: %s" % (k, json.dumps(ev, default=str)[:300]),
                   {"kind": "session_ops", "ops": seqs[i], "stopped_at": k, "clause": "SessionCarriesAnswer"})
    # pairing
    cases = []
    g = tlc.run_tlc("GenHandshake", "mc/GenHandshake.cfg", work=os.path.join(ctx.work, "gen"), workers=1, timeout=900)
    seen = set()
    for c in g.printed("PATH"):
        k = json.dumps([c["sup"], c["pref"], c["tracked"]])
        if k not in seen:
            seen.add(k)
            cases.append({"sup": c["sup"], "pref": c["pref"], "tracked": c["tracked"], "paired": True})
    if not cases:
        raise Machinery("no pairing cases")
    chunks = [cases[i:i + 300] for i in range(0, len(cases), 300)]
    traces = [t for ch in par.pmap(_run, chunks) for t in ch]
    validate_traces(ctx, "C04", traces, cases, True, "paired", set(C04_CLAUSES))
    ctx.cov["distinct_nontrivial"] = len(set(map(repr, vals))) + len(cases)
    ctx.cov["samples"] = [recs[0], recs[-1], traces[0]]
