"""C20 driver: generated configuration files, witness children, the three host entry points."""
import contextlib
import glob
import io
import json
import logging
import os
import shutil
import sys

import anyio

logging.disable(logging.CRITICAL)

HERE = os.path.dirname(os.path.dirname(os.path.abspath(__file__)))
WITNESS = os.path.join(HERE, "children", "witness.py")

ARGS = {
    "none": [],
    "plain": ["--port", "8080"],
    "spaces": ["two words", " leading", "trailing "],
    "quotes": ["it's", 'say "hi"', "$HOME", "a;b|c&d", "*"],
    "unicode": ["naïve", "日本語", "\U0001F600"],
    "empty": ["", "x", ""],
    "many": [str(i) for i in range(40)],
}
ENVS = {"absent": "ABSENT", "empty": {}, "values": {"VERIF_FOO": "bar baz", "VERIF_EMPTY": "", "VERIF_UNI": "é", "PATH": "/usr/bin:/bin"}}
TIMEOUTS = {"absent": "ABSENT", "int": 7, "float": 2.5, "stringNumber": "12.5"}
INHERITED = ["HOME", "LOGNAME", "PATH", "SHELL", "TERM", "USER"]
BARE = "verif-mcp-server"
NAMES = ["Srv1", "srv1", "SRV1", "srv-4 \u00e9"]       # server names are exact keys: case and all
_primed = [False]


def _wrapper(path, which):
    with open(path, "w") as f:
        f.write("#!/bin/sh\nVERIF_WHICH=%s exec %s \"$@\"\n" % (which, sys.executable))
    os.chmod(path, 0o755)


def prime():
    """once per host process: one env-less launch under a different host environment, so that a
    default environment remembered from an earlier launch is visible in every later case"""
    if _primed[0]:
        return
    _primed[0] = True
    from chuk_mcp.transports.stdio.stdio_client import stdio_client
    from chuk_mcp.transports.stdio.parameters import StdioParameters

    async def go():
        with anyio.move_on_after(10):
            async with stdio_client(StdioParameters(command=sys.executable, args=["-c", "import sys; sys.stdin.read()"])):
                await anyio.sleep(0.01)

    old = {k: os.environ.get(k) for k in ("LOGNAME", "USER")}
    os.environ["LOGNAME"] = os.environ["USER"] = "verif-epoch-prime"
    try:
        anyio.run(go)
    except Exception:
        pass
    finally:
        for k, v in old.items():
            if v is None:
                os.environ.pop(k, None)
            else:
                os.environ[k] = v


def build_case(work, n, case):
    d = os.path.join(work, "case_%d" % n)
    shutil.rmtree(d, ignore_errors=True)
    os.makedirs(d)
    servers = {}
    meta = []
    for i, sc in enumerate(case["cfg"], 1):
        sd = os.path.join(d, "s%d" % i)
        os.makedirs(sd)
        script = os.path.join(sd, "witness.py")
        shutil.copy(WITNESS, script)
        args = ["-B", script] + ARGS[sc["args"]]
        entry = {"command": sys.executable, "args": args}
        envv = ENVS[sc["env"]]
        which = ""
        if sc.get("cmd") == "bare":
            # the same bare name exists, differently, on the configured PATH (A) and on the host's (B)
            for w in ("A", "B"):
                os.makedirs(os.path.join(sd, "bin" + w))
                _wrapper(os.path.join(sd, "bin" + w, BARE), w)
            entry["command"] = BARE
            if isinstance(envv, dict) and envv:
                envv = dict(envv, PATH=os.path.join(sd, "binA") + ":/usr/bin:/bin")
                which = "A"
            else:
                which = "B"
        if sc.get("cmd") == "spacePath":
            # an absolute command whose path contains blanks (it is ONE executable, not a command line)
            os.makedirs(os.path.join(sd, "my tools dir"))
            launcher = os.path.join(sd, "my tools dir", "launch server")
            _wrapper(launcher, "S")
            entry["command"] = launcher
            which = "S"
        if envv != "ABSENT":
            entry["env"] = envv
        if TIMEOUTS[sc["timeout"]] != "ABSENT":
            entry["timeout"] = TIMEOUTS[sc["timeout"]]
        if sc.get("extra"):
            entry["description"] = "extra key"
            entry["disabled"] = False
        servers[NAMES[i - 1]] = entry
        meta.append({"dir": sd, "args": ARGS[sc["args"]], "env": envv, "timeout": TIMEOUTS[sc["timeout"]], "entry": entry, "which": which})
    path = os.path.join(d, "config.json")
    mal = case["malformed"]
    if mal == "invalidJson":
        with open(path, "w") as f:
            f.write(['{"mcpServers": {"srv1": {"command": ', "", "  \n\t ", "not json at all", '{"mcpServers": {},}', "\ufeff"][case.get("variant", n) % 6])
    elif mal != "missingFile":
        with open(path, "w") as f:
            json.dump({"mcpServers": servers, "other": 1}, f, ensure_ascii=False)
    names = NAMES[:len(meta)]
    if mal == "unknownServer":
        # not configured - not even when it differs from a configured name only in case
        names = [["no-such-server", "sRV1", "srv1 ", "Srv"][case.get("variant", n) % 4]] + names[1:]
    return path, names, meta


def observe(meta, host_env):
    spawned = []
    hs = []
    for i, m in enumerate(meta, 1):
        for wf in sorted(glob.glob(os.path.join(m["dir"], "witness.*.json"))):
            w = json.load(open(wf))
            pid = wf.rsplit(".", 2)[1]
            if isinstance(m["env"], dict) and m["env"]:
                # the configured environment and nothing of the host's (what the interpreter and the
                # shell wrapper add for themselves aside)
                extra = set(w["env"]) - set(m["env"]) - {"LC_CTYPE", "PWD", "SHLVL", "_", "OLDPWD", "VERIF_WHICH"}
                env_ok = all(w["env"].get(k) == v for k, v in m["env"].items()) and not extra
            else:
                # nothing configured: the host's inheritable variables as they were at launch
                env_ok = all(w["env"].get(k) == v for k, v in host_env.items())
            exe_ok = os.path.realpath(w["exe"]) == os.path.realpath(sys.executable)
            if m["which"]:
                exe_ok = exe_ok and w["env"].get("VERIF_WHICH") == m["which"]
            spawned.append({"server": i, "argsOk": w["argv"] == m["args"], "envOk": bool(env_ok), "exeOk": bool(exe_ok)})
            if os.path.exists(os.path.join(m["dir"], "initialized.%s" % pid)):
                hs.append(i)
    return spawned, hs


def run_case(arg):
    work, n, case = arg
    from chuk_mcp.config import load_config
    import chuk_mcp.__main__ as cli
    from chuk_mcp.mcp_client.host import server_manager

    sys.unraisablehook = lambda *_a: None      # subprocess transports collected after their loop closed
    prime()
    path, names, meta = build_case(work, n, case)
    saved = {k: os.environ.get(k) for k in INHERITED}
    os.environ["LOGNAME"] = os.environ["USER"] = "verif-epoch-%d" % n
    binb = [os.path.join(m["dir"], "binB") for m in meta if m["which"]]
    if binb:
        os.environ["PATH"] = ":".join(binb + [saved["PATH"] or "/usr/bin:/bin"])
    host_env = {k: os.environ[k] for k in INHERITED if os.environ.get(k)}
    obs = {"outcome": "none", "spawned": [], "handshakes": [], "paramsOk": False, "timeoutOk": False, "detail": ""}
    buf = io.StringIO()
    try:
        with contextlib.redirect_stdout(buf):
            if case["entry"] == "loader":
                try:
                    res = anyio.run(load_config, path, names[0])
                    params, timeout = res
                    m = meta[0]
                    obs["paramsOk"] = (params.command == m["entry"]["command"] and list(params.args) == m["entry"]["args"]
                                       and params.env == m["entry"].get("env"))
                    want = None if m["timeout"] == "ABSENT" else float(m["timeout"])
                    obs["timeoutOk"] = timeout == want and (timeout is None or isinstance(timeout, float))
                    obs["outcome"] = "params"
                except FileNotFoundError:
                    obs["outcome"] = "FileNotFoundError"
                except json.JSONDecodeError:
                    obs["outcome"] = "JSONDecodeError"
                except ValueError:
                    obs["outcome"] = "ValueError"
                except Exception as e:
                    obs["outcome"] = "other:" + type(e).__name__
            elif case["entry"] == "cliTest":
                ok = anyio.run(cli.test_server, path, names[0], bool(case.get("verbose")))
                obs["outcome"] = "connected" if ok is True else "reportedFailure"
            else:
                called = {}

                async def command(server_streams, **kw):
                    from chuk_mcp.protocol.messages import send_ping
                    called["n"] = len(server_streams)
                    # one round trip per server, so that each child has consumed everything
                    # written before it (in particular notifications/initialized)
                    for rs, ws in server_streams:
                        await send_ping(rs, ws, timeout=5.0)

                old = server_manager.os.system
                server_manager.os.system = lambda *_a, **_k: 0
                try:
                    server_manager.run_command(command, path, names)
                finally:
                    server_manager.os.system = old
                obs["outcome"] = "connected" if called.get("n") == len(names) else "reportedFailure"
    except BaseException as e:  # noqa
        if isinstance(e, (KeyboardInterrupt, SystemExit)):
            raise
        obs["outcome"] = "raised:" + type(e).__name__
    obs["detail"] = buf.getvalue()[-300:]
    for k, v in saved.items():
        if v is None:
            os.environ.pop(k, None)
        else:
            os.environ[k] = v
    obs["spawned"], obs["handshakes"] = observe(meta, host_env)
    shutil.rmtree(os.path.dirname(path), ignore_errors=True)
    return {"entry": case["entry"], "malformed": case["malformed"], "cfg": [{k: v for k, v in c.items() if k != "extra"} for c in case["cfg"]], "obs": obs}
