---------------------------- MODULE ErrorClass ----------------------------
(***************************************************************************)
(* Classification of JSON-RPC error responses (C07).                       *)
(*   chuk_mcp/protocol/types/errors.py      NON_RETRYABLE_ERRORS,          *)
(*                                          RETRYABLE_ERRORS, is_retryable *)
(*   send_message._process_response        raises Retryable/NonRetryable  *)
(*   ping / resources subscribe+unsubscribe boolean convenience calls      *)
(*                                                                         *)
(* The sets NonRetryable / Retryable / Named and the helper list are       *)
(* extracted from the tree on every run (spec/gen/ErrorSets.tla); the      *)
(* documented sets are written here, from the documentation of the pinned  *)
(* errors.py.                                                              *)
(***************************************************************************)
EXTENDS Integers, FiniteSets, TLC

CONSTANTS NonRetryable, Retryable, Named, Helpers, BoolHelpers, InitHelpers

DocumentedPermanent ==
  {-32700, -32600, -32601, -32602,      \* parse error, invalid request, method not found, invalid params
   -32003, -32005, -32006, -32007, -32008,   \* capability, tool, prompt, authorization, version mismatch
   -32000}                              \* connection closed
DocumentedRetryable == {-32603, -32001, -32002, -32004}
DocumentedBool == {"send_ping", "send_resources_subscribe", "send_resources_unsubscribe"}

Codes == (-33100..-31900) \cup (-200..200)

\* is_retryable_error: membership test on the permanent set
Classify(c) == IF c \in NonRetryable THEN "NonRetryableError" ELSE "RetryableError"
\* the contract
Expected(c) == IF c \in DocumentedPermanent THEN "NonRetryableError" ELSE "RetryableError"

VARIABLES helper, code, phase, outcome
vars == <<helper, code, phase, outcome>>

NoOutcome == [kind |-> "none"]

Init == helper \in Helpers /\ code \in Codes /\ phase = "waiting" /\ outcome = NoOutcome

\* the matching error response is received: _process_response raises; the boolean helpers
\* catch and report False
ErrorArrives ==
  /\ phase = "waiting"
  /\ phase' = "done"
  /\ outcome' = IF helper \in BoolHelpers
                THEN [kind |-> "returned", value |-> FALSE]
                ELSE [kind |-> "raised", cls |-> Classify(code), code |-> code]
  /\ UNCHANGED <<helper, code>>

Next == ErrorArrives
Spec == Init /\ [][Next]_vars

SetsDisjoint == NonRetryable \cap Retryable = {}
NamedPartition == \A n \in Named : (n \in NonRetryable) # (n \in Retryable)
SetsAsDocumented == NonRetryable = DocumentedPermanent /\ Retryable = DocumentedRetryable
BoolHelpersAsDocumented == BoolHelpers = DocumentedBool /\ BoolHelpers \subseteq Helpers
ClassTotal == Classify(code) \in {"NonRetryableError", "RetryableError"}
ClassAsDocumented == Classify(code) = Expected(code)
NeverNormal ==
  phase = "done" =>
    \/ outcome.kind = "raised" /\ outcome.cls = Expected(code) /\ outcome.code = code
    \/ helper \in DocumentedBool /\ outcome = [kind |-> "returned", value |-> FALSE]
=============================================================================
