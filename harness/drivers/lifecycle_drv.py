"""C16 driver: the real stdio_client / StdioClient with REAL child processes and the real clock.
One scenario = (child behaviour, exit path, moment).  The process returned by the real
anyio.open_process is wrapped so that terminate / kill / wait calls are recorded; the process
table (/proc/<pid>/stat) and the fd table (/proc/self/fd) are observed after the context exits."""
import gc
import logging
import os
import sys
import time

import anyio

logging.disable(logging.CRITICAL)

CHILD = os.path.join(os.path.dirname(os.path.dirname(os.path.abspath(__file__))), "children", "child.py")
BEHAVIOURS = ["well_behaved", "exit_at:0", "exit_at:1", "exit_at:2", "ignore_term", "no_read", "flood", "close_stdout", "close_stdin", "slow_start", "unstartable",
              "unstartable:blank", "unstartable:blankdir"]
UNSTARTABLE = {"unstartable": ("/nonexistent/verif-no-such-binary", ["x"]),
               "unstartable:blank": ("verif-no-such-server --stdio", []),          # a whole command line in `command`
               "unstartable:blankdir": ("/nonexistent dir/verif server", [])}
EXIT_PATHS = ["normal", "exception", "outerCancel", "timeoutAround"]
MOMENTS = ["beforeFirstMessage", "requestInFlight", "afterResponse"]
EXTRA_SCENARIOS = [{"beh": b, "path": p, "moment": "bigWritesQueued"} for b in ("no_read", "well_behaved", "ignore_term") for p in EXIT_PATHS]
# the timeout around the context fires while the context is still being entered (ms after the start)
EXTRA_SCENARIOS += [{"beh": b, "path": "timeoutAround", "moment": "duringEnter:%d" % ms} for b in ("well_behaved", "slow_start", "ignore_term") for ms in (0, 2, 5, 10, 20, 35, 50, 80)]


def proc_state(pid):
    try:
        with open("/proc/%d/stat" % pid) as f:
            st = f.read().rsplit(")", 1)[1].split()[0]
        return "zombie" if st == "Z" else "running"
    except (FileNotFoundError, ProcessLookupError):
        return "gone"


def nfds():
    return len(os.listdir("/proc/self/fd"))


class ProcProxy:
    def __init__(self, p, log, t0):
        self._p = p
        self._log = log
        self._t0 = t0

    def __getattr__(self, n):
        return getattr(self._p, n)

    def terminate(self):
        self._log.append({"e": "Terminate", "t": time.monotonic() - self._t0})
        return self._p.terminate()

    def kill(self):
        self._log.append({"e": "Kill", "t": time.monotonic() - self._t0})
        return self._p.kill()

    async def wait(self):
        t = time.monotonic()
        try:
            return await self._p.wait()
        finally:
            self._log.append({"e": "Waited", "t": time.monotonic() - self._t0, "dt": time.monotonic() - t, "rc": self._p.returncode})


def run_scenario(sc):
    """sc = {beh, path, moment}.  Returns the event list."""
    from chuk_mcp.transports.stdio.stdio_client import stdio_client
    from chuk_mcp.transports.stdio.parameters import StdioParameters
    from chuk_mcp.protocol.messages.send_message import send_message

    beh, path, moment = sc["beh"], sc["path"], sc["moment"]
    evs = []
    pids = []
    t0 = time.monotonic()
    real_open = anyio.open_process

    async def open_process(command, **kw):
        p = await real_open(command, **kw)
        pids.append(p.pid)
        return ProcProxy(p, evs, t0)

    if beh in UNSTARTABLE:
        params = StdioParameters(command=UNSTARTABLE[beh][0], args=list(UNSTARTABLE[beh][1]))
    else:
        params = StdioParameters(command=sys.executable, args=["-B", CHILD, beh], env={"PATH": os.environ.get("PATH", ""), "LOG_LEVEL": "ERROR"})

    class BodyError(Exception):
        pass

    pending = {"kind": "none"}

    async def body(rs, ws, scope):
        # wait for readiness (first notification) unless the child never speaks
        if beh not in ("exit_at:0",):
            with anyio.move_on_after(3.0):
                await rs.receive()
        if moment == "beforeFirstMessage":
            pass
        elif moment == "bigWritesQueued":
            # more output than the pipe and the write buffer can absorb (a child that never reads)
            from chuk_mcp.protocol.messages.json_rpc_message import JSONRPCNotification
            for i in range(8):
                ws.send_nowait(JSONRPCNotification(jsonrpc="2.0", method="notifications/message", params={"level": "info", "data": "x" * 100000, "n": i}))
            await anyio.sleep(0.05)
        elif moment == "requestInFlight":
            async def req():
                try:
                    r = await send_message(rs, ws, "ping", timeout=1.5, message_id="ping-1")
                    pending["kind"] = "result" if (isinstance(r, dict) and r.get("marker") == 1) else "fabricated"
                except TimeoutError:
                    pending["kind"] = "timeout"
                except anyio.get_cancelled_exc_class():
                    pending["kind"] = "cancelled"
                    raise
                except BaseException as e:  # noqa
                    pending["kind"] = "error:" + type(e).__name__
            sc["tg"].start_soon(req)
            await anyio.sleep(0.05)
        else:
            try:
                r = await send_message(rs, ws, "ping", timeout=0.4, message_id="ping-1")
                pending["kind"] = "result" if (isinstance(r, dict) and r.get("marker") == 1) else "fabricated"
            except TimeoutError:
                pending["kind"] = "timeout"
            except Exception as e:
                pending["kind"] = "error:" + type(e).__name__
        evs.append({"e": "ExitBegin", "path": path, "moment": moment, "t": time.monotonic() - t0})
        sc["t_exit"] = time.monotonic()
        if path == "exception":
            raise BodyError()
        if path == "outerCancel":
            scope.cancel()
            await anyio.sleep(30)
        if path == "timeoutAround":
            await anyio.sleep(30)

    async def main_during_enter(ms):
        fd0 = nfds()
        anyio.open_process = open_process
        entered = False
        try:
            with anyio.move_on_after(ms / 1000.0) as scope:
                async with stdio_client(params) as (rs, ws):
                    entered = True
                    evs.append({"e": "Entered", "t": time.monotonic() - t0})
                    await anyio.sleep(30)
            t_ret = time.monotonic()
            if not entered:
                evs.append({"e": "EnterCancelled", "t": t_ret - t0})
            evs.append({"e": "ExitBegin", "path": path, "moment": "duringEnter", "t": min(t_ret - t0, ms / 1000.0)})
            evs.append({"e": "Returned", "dt": max(0.0, t_ret - t0 - ms / 1000.0), "exc": "", "t": t_ret - t0})
        finally:
            anyio.open_process = real_open
        await anyio.sleep(0.05)
        gc.collect()
        await anyio.sleep(0.05)
        for pid in pids:
            evs.append({"e": "ChildState", "s": proc_state(pid)})
        evs.append({"e": "FdDelta", "n": nfds() - fd0})
        evs.append({"e": "Pending", "kind": "none"})
        for pid in pids:
            try:
                os.kill(pid, 9)
            except ProcessLookupError:
                pass

    async def main():
        if moment.startswith("duringEnter"):
            return await main_during_enter(int(moment.split(":")[1]))
        fd0 = nfds()
        anyio.open_process = open_process
        entered = False
        exc = ""
        try:
            async with anyio.create_task_group() as tg:
                sc["tg"] = tg
                try:
                    if path == "timeoutAround":
                        scope = anyio.move_on_after(60)
                    else:
                        scope = anyio.CancelScope()
                    with scope:
                        async with stdio_client(params) as (rs, ws):
                            entered = True
                            evs.append({"e": "Entered", "t": time.monotonic() - t0})
                            if path == "timeoutAround":
                                # the timeout around the context fires while the body sleeps
                                async def fire():
                                    while "t_exit" not in sc:
                                        await anyio.sleep(0.01)
                                    scope.cancel()
                                tg.start_soon(fire)
                            await body(rs, ws, scope)
                except BodyError:
                    exc = "BodyError"
                except BaseException as e:  # noqa
                    if isinstance(e, (KeyboardInterrupt, SystemExit)):
                        raise
                    exc = type(e).__name__
                t_ret = time.monotonic()
                if not entered:
                    evs.append({"e": "EnterRaised", "exc": exc, "t": t_ret - t0})
                else:
                    evs.append({"e": "Returned", "dt": t_ret - sc.get("t_exit", t_ret), "exc": exc, "t": t_ret - t0})
                tg.cancel_scope.cancel()
        finally:
            anyio.open_process = real_open
        # observations after the exit
        await anyio.sleep(0.05)
        gc.collect()
        await anyio.sleep(0.05)
        for pid in pids:
            evs.append({"e": "ChildState", "s": proc_state(pid)})
        evs.append({"e": "FdDelta", "n": nfds() - fd0})
        evs.append({"e": "Pending", "kind": pending["kind"]})
        # never leave children behind, whatever the library did
        for pid in pids:
            try:
                os.kill(pid, 9)
            except ProcessLookupError:
                pass

    try:
        anyio.run(main, backend="asyncio")
    except BaseException as e:  # noqa
        if isinstance(e, (KeyboardInterrupt, SystemExit)):
            raise
        # leaving the context damaged the caller's own cancel scopes / task group: the code after
        # the context never ran normally.  Observe what is left, synchronously.
        anyio.open_process = real_open
        evs.append({"e": "Broke", "exc": type(e).__name__, "t": time.monotonic() - t0})
        time.sleep(0.1)
        gc.collect()
        for pid in pids:
            evs.append({"e": "ChildState", "s": proc_state(pid)})
        evs.append({"e": "FdDelta", "n": 0})
        evs.append({"e": "Pending", "kind": pending["kind"]})
        for pid in pids:
            try:
                os.kill(pid, 9)
            except ProcessLookupError:
                pass
    sc.pop("tg", None)
    sc.pop("t_exit", None)
    return evs


def run_scenario_isolated(sc, limit=20.0):
    """run one scenario in its own interpreter with a wall-clock limit: a shutdown that never
    returns is an observation (hung), not a hang of the check"""
    import json
    import signal
    import subprocess
    env = dict(os.environ)
    p = subprocess.Popen([sys.executable, "-B", "-m", "harness.drivers.lifecycle_drv", json.dumps(sc)], stdout=subprocess.PIPE, stderr=subprocess.DEVNULL, env=env, start_new_session=True, text=True)
    try:
        out, _ = p.communicate(timeout=limit)
        return json.loads(out.strip().splitlines()[-1])
    except subprocess.TimeoutExpired:
        try:
            os.killpg(p.pid, signal.SIGKILL)
        except ProcessLookupError:
            pass
        p.wait()
        return [{"e": "Entered", "t": 0.0}, {"e": "ExitBegin", "path": sc["path"], "moment": sc["moment"], "t": 0.0}, {"e": "Hung", "t": limit},
                {"e": "ChildState", "s": "running"}, {"e": "FdDelta", "n": 0}, {"e": "Pending", "kind": "none"}]
    except Exception as e:
        return {"error": "%s: %s" % (type(e).__name__, e)}


if __name__ == "__main__":
    import json
    print(json.dumps(run_scenario(json.loads(sys.argv[1]))))
