--------------------------- MODULE StdioOutTrace ---------------------------
(* Real _stdin_writer runs behind the process seam.  Events:                                 *)
(*   Accept(shape)         an item was put on the write stream                               *)
(*   Line(idx, ok)         a line arrived at the child's stdin; idx = the accepted item it   *)
(*                         decodes to (0 if none), ok = exactly one LF, at the end, no raw   *)
(*                         CR/LF inside, UTF-8, decoded value equals the item with absent    *)
(*                         members omitted (compared by the driver)                          *)
(*   CloseWrite, StdinClosed                                                                 *)
EXTENDS StdioOut, TraceBatch
VARIABLES tid, l, bad
tvars == <<vars, tid, l, bad>>
Evs == Traces[tid]
Ev == Evs[l]
Is(n) == l <= Len(Evs) /\ Ev.e = n
Consume == l' = l + 1 /\ tid' = tid

TInit == tid \in 1..NT /\ l = 1 /\ bad = {} /\ Init
TNext ==
  \/ Is("Accept") /\ AcceptItem(Ev.shape) /\ Consume /\ UNCHANGED bad
  \/ Is("Line") /\ WriteOne /\ Len(childIn') = Len(childIn) + 1 /\ childIn'[Len(childIn')] = Ev.idx /\ Consume
       /\ bad' = IF Ev.ok THEN bad ELSE bad \cup {"LineContent"}
  \/ \* silent: an unserialisable item is dropped
     /\ l <= Len(Evs) /\ WriteOne /\ childIn' = childIn /\ UNCHANGED <<tid, l, bad>>
  \/ Is("Rejection") /\ childIn' = Append(childIn, 0) /\ UNCHANGED <<accepted, outq, writeClosed, stdinClosed>> /\ Consume /\ UNCHANGED bad
  \/ Is("CloseWrite") /\ CloseWrite /\ Consume /\ UNCHANGED bad
  \/ Is("StdinClosed") /\ CloseStdin /\ Consume /\ UNCHANGED bad
  \/ Is("End") /\ Consume /\ UNCHANGED <<vars, bad>> /\ outq = <<>> /\ (writeClosed => stdinClosed)
TSpec == TInit /\ [][TNext]_tvars
Judge ==
  /\ Reached(tid, l)
  /\ (l = Len(Evs) + 1 => Accept(tid) /\ JudgeAll(tid, << <<"InOrderNoLoss", InOrderNoLoss>>, <<"LineContent", bad = {}>> >>, "x"))
=============================================================================
