"""Process-parallel map for drivers (fresh interpreter state per worker, repo imported there)."""
import multiprocessing as mp
import os


def _init(paths):
    import sys
    for p in paths:
        if p not in sys.path:
            sys.path.insert(0, p)


def pmap(fn, items, jobs=16, chunksize=None):
    items = list(items)
    if not items:
        return []
    if len(items) < 8 or jobs <= 1:
        return [fn(x) for x in items]
    import sys
    ctx = mp.get_context("fork")
    cs = chunksize or max(1, len(items) // (jobs * 8))
    with ctx.Pool(min(jobs, os.cpu_count() or 1), initializer=_init, initargs=(list(sys.path),)) as pool:
        return pool.map(fn, items, chunksize=cs)
