------------------------- MODULE MC_RequestWait -------------------------
(* Model-checking instances of RequestWait (constants that a .cfg cannot express). *)
EXTENDS RequestWait

\* one caller, every feature combination, timeouts on and between poll boundaries (P = 2)
CfgAll == [T : {3, 4}, tok : BOOLEAN, cb : BOOLEAN, raiseAt : {0}]
CfgPlain == [T : {3, 4, 5}, tok : {FALSE}, cb : {FALSE}, raiseAt : {0}]
CfgCancel == [T : {3, 5}, tok : {TRUE}, cb : {TRUE}, raiseAt : {0}]
CfgTwo == [T : {3, 4}, tok : {FALSE}, cb : {FALSE}, raiseAt : {0}]
KindsAll == {"resp", "err", "sreq", "notif", "prog", "batch"}
KindsResp == {"resp", "err", "notif"}
KindsProg == {"resp", "notif", "prog"}

\* a server cannot answer a request it has not received: in the concurrent instance
\* id-bearing messages for caller c arrive only after c started
View == <<now, inq, narr, cfg, st, deadline, pollAt, outcome, reqWritten, cancelNotifs,
          cancelled, cancelAt, progLog, progArr, firstMatch, startedAt, entering, waitq, hand>>
\* bound for the quick instance: a caller starts at time 0 or 1 (a response may still be queued
\* before the request is sent)
\* a server cannot answer a request it has not received (concurrent instance)
AnswerAfterRequest ==
  /\ \A i \in 1..Len(inq) : inq[i].id \in Callers => st[inq[i].id] # "idle"
  /\ \A c \in Callers : hand[c] # None /\ hand[c].id \in Callers => st[hand[c].id] # "idle"
StartEarly == \A c \in Callers : st[c] = "idle" => now <= 1
=============================================================================
