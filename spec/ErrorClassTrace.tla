------------------------- MODULE ErrorClassTrace -------------------------
(* Observed outcomes of real helper calls answered with an error response, and of           *)
(* is_retryable_error, judged against ErrorClass.  A case:                                   *)
(*   [helper, fn (TRUE for a direct is_retryable_error call), code [huge, v],               *)
(*    obs [kind, cls, codeOk, msgOk, value]]                                                *)
(* 64-bit codes do not fit TLC integers: they arrive as [huge |-> TRUE] and are, like any   *)
(* integer outside the documented set, retryable.                                            *)
EXTENDS ErrorClass, TraceBatch

VARIABLES tid
Case == Traces[tid]

ExpectedC(c) == IF c.huge THEN "RetryableError" ELSE Expected(c.v)

Clauses ==
  IF Case.fn
  THEN << <<"ClassTotalFn", Case.obs.kind = "returned">>,
          <<"ClassAsDocumented", Case.obs.kind = "returned" => (Case.obs.value = (ExpectedC(Case.code) = "RetryableError"))>> >>
  ELSE IF Case.helper \in InitHelpers
  THEN << <<"NeverNormal", Case.obs.kind = "raised">>,
          <<"CodeCarried", Case.obs.kind = "raised" => Case.obs.codeOk>> >>
  ELSE IF Case.helper \in DocumentedBool
  THEN << <<"BoolReportsFalse", Case.obs.kind = "returned" /\ Case.obs.value = FALSE>> >>
  ELSE << <<"NeverNormal", Case.obs.kind = "raised">>,
          <<"ClassAsDocumented", Case.obs.kind = "raised" => Case.obs.cls = ExpectedC(Case.code)>>,
          <<"CodeCarried", Case.obs.kind = "raised" => Case.obs.codeOk>>,
          <<"MessageCarried", Case.obs.kind = "raised" => Case.obs.msgOk>> >>

TInit == tid \in 1..NT /\ helper = Case.helper /\ code = 0 /\ phase = "done" /\ outcome = NoOutcome
TNext == UNCHANGED <<vars, tid>>
TSpec == TInit /\ [][TNext]_<<vars, tid>>
Judge == JudgeAll(tid, Clauses, Case.helper) /\ Accept(tid)
=============================================================================
