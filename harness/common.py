"""Shared plumbing of the checks: context, verdicts, known findings, evidence, replay files."""
import json
import os
import sys
import time

VERIF = os.path.dirname(os.path.dirname(os.path.abspath(__file__)))
REPO = os.environ.get("VERIF_REPO", "/repo")
WORK = os.path.join(VERIF, ".work")
EVIDENCE = os.path.join(VERIF, "evidence")
FINDINGS = os.path.join(VERIF, "known_findings.json")


class Machinery(RuntimeError):
    """The check itself could not do its job (exit 2)."""


class Ctx:
    def __init__(self, pid, tier, seed):
        self.pid = pid
        self.tier = tier
        self.seed = seed
        self.t0 = time.time()
        self.work = os.path.join(WORK, pid)
        os.makedirs(self.work, exist_ok=True)
        self.replays = os.path.join(WORK, "replays")
        os.makedirs(self.replays, exist_ok=True)
        self.violations = []      # (signature, replay_path, what)
        self.known_hits = {}      # signature -> count
        self.notes = []
        self.cov = {
            "states": 0,
            "transitions": 0,
            "traces_validated_against_impl": 0,
            "samples": [],
            "evaluations": 0,
            "distinct_nontrivial": 0,
            "rule": "",
            "model_runs": [],
            "drift": 0,
        }
        self.assumptions = []
        try:
            self.findings = json.load(open(FINDINGS))["findings"]
        except FileNotFoundError:
            self.findings = []
        self._nrep = 0

    # -- known findings ----------------------------------------------------
    def known(self, signature):
        for f in self.findings:
            if f.get("property") == self.pid and f.get("status") == "known" and f.get("signature") == signature:
                return f
        return None

    def report(self, signature, what, replay_obj):
        """An observed behaviour of the real code broke a clause."""
        f = self.known(signature)
        if f is not None:
            self.known_hits[signature] = self.known_hits.get(signature, 0) + 1
            return
        self._nrep += 1
        if self._nrep > 25:
            self.violations.append((signature, self.violations[-1][1], what))
            return
        path = os.path.join(self.replays, "%s_%s_%d.json" % (self.pid, self.tier, self._nrep))
        with open(path, "w") as fh:
            json.dump({"property": self.pid, "signature": signature, "what": what, "replay": replay_obj}, fh, indent=1, default=str)
        self.violations.append((signature, path, what))

    def note(self, s):
        self.notes.append(s)
        print("note: " + s)

    def add_model_run(self, name, r, invariants_ok=True):
        self.cov["states"] += r.distinct
        self.cov["transitions"] += r.generated
        self.cov["model_runs"].append(
            {"config": name, "distinct_states": r.distinct, "states_generated": r.generated, "depth": r.depth, "wall_s": round(r.wall, 1),
             "violated": list(r.invariant_violated) + [p for p in r.property_violated if p]}
        )

    def finish(self, level="model_checking"):
        wall = time.time() - self.t0
        ev = {
            "property_id": self.pid,
            "tier": self.tier,
            "seed": self.seed,
            "level": level,
            "coverage": self.cov,
            "assumptions": self.assumptions,
            "wall_s": round(wall, 2),
            "violations": len(self.violations),
            "known_findings_hit": self.known_hits,
            "notes": self.notes[:50],
        }
        self.cov["samples"] = self.cov["samples"][:6]
        os.makedirs(EVIDENCE, exist_ok=True)
        with open(os.path.join(EVIDENCE, self.pid + ".json"), "w") as fh:
            json.dump(ev, fh, indent=1, default=str)
        for sig, n in sorted(self.known_hits.items()):
            f = self.known(sig)
            print("KNOWN-FINDING: property=%s %s [%s; observed %d times]" % (self.pid, f.get("what", ""), sig, n))
        seen = set()
        for sig, path, what in self.violations:
            if sig in seen:
                continue
            seen.add(sig)
            print("VIOLATION property=%s replay=%s  (%s: %s)" % (self.pid, path, sig, what))
        print(
            "%s %s: states=%d transitions=%d traces=%d violations=%d known=%d wall=%.1fs"
            % (self.pid, self.tier, self.cov["states"], self.cov["transitions"], self.cov["traces_validated_against_impl"],
               len(self.violations), sum(self.known_hits.values()), wall)
        )
        return 1 if self.violations else 0


def setup_paths():
    src = os.path.join(REPO, "src")
    for p in (VERIF, src):
        if p not in sys.path:
            sys.path.insert(0, p)
