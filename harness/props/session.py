"""C19: SessionStore specification against the real InMemorySessionManager / ProtocolHandler."""
import json
import os
import random

from harness import tlc, validate, par, paths
from harness.common import Machinery
from harness.drivers import server_drv


def tree_constants():
    from chuk_mcp.protocol.types import versioning as V
    return {"ServerSup": set(V.SUPPORTED_VERSIONS), "Latest": V.CURRENT_VERSION}


def trace_constants():
    c = {"MaxSid": 1000000, "MaxClock": 100000000, "Ages": set(), "Clients": set(), "Versions": set()}
    c.update(tree_constants())
    return c


def _run(ops):
    try:
        return server_drv.run_session_ops(ops)
    except BaseException as e:  # noqa
        return {"error": "%s: %s" % (type(e).__name__, e)}


def concretise(path, sup, rng):
    """abstract versions v1/vx -> a supported / an unsupported concrete version value"""
    out = []
    for op in path:
        op = dict(op)
        if "v" in op:
            if op["v"] == "v1":
                op["v"] = rng.choice(sorted(sup))
            else:
                op["vreal"] = rng.choice(["1999-01-01", "2025-06-19", "2024-11-5", "banana", "", 12, None, 2025.0618, ["2025-06-18"]])
                op["v"] = "unsupported"
            if op["op"] == "Create":
                # create_session records what it is given
                op["v"] = op.get("vreal", op["v"]) if isinstance(op.get("vreal", op["v"]), str) else "weird"
                op.pop("vreal", None)
        out.append(op)
    return out


def random_ops(rng, n, sup):
    ops = []
    created = 0
    for _ in range(n):
        r = rng.random()
        s = rng.randrange(1, max(2, created + 2))
        if r < 0.14:
            ops.append({"op": "Create", "c": rng.choice(["c1", "c2", "c3"]), "v": rng.choice(sorted(sup) + ["1999-01-01"])})
            created += 1
        elif r < 0.26:
            v = rng.choice(sorted(sup) + ["unsupported", "absent"])
            op = {"op": "HandleInitialize", "c": rng.choice(["c1", "c2"]), "v": v, "s": rng.choice([0, 0, s])}
            if v == "unsupported":
                op["vreal"] = rng.choice(["1999-01-01", "2025-06-19", "banana", 12, None, "2030-01-01"])
            ops.append(op)
            created += 1
        elif r < 0.38:
            ops.append({"op": "Get", "s": s})
        elif r < 0.50:
            ops.append({"op": "Touch", "s": s})
        elif r < 0.58:
            ops.append({"op": "Delete", "s": s})
        elif r < 0.70:
            ops.append({"op": "Cleanup", "a": rng.choice([0, 1, 2, 3, 5, 10])})
        elif r < 0.76:
            ops.append({"op": "List"})
        elif r < 0.80:
            ops.append({"op": "Count"})
        elif r < 0.82:
            ops.append({"op": "Clear"})
        elif r < 0.92:
            ops.append({"op": "HandleRequest", "s": s, "m": rng.random() < 0.85, "notif": rng.random() < 0.3,
                        "method": rng.choice(["ping", "tools/list", "nope/nope", "notifications/initialized", "custom/raises"])})
        else:
            ops.append({"op": "Tick", "d": rng.choice([1, 1, 2, 3, 7])})
    return ops


def check_c19(ctx):
    quick = ctx.tier == "quick"
    ctx.cov["rule"] = ("cases = operation sequences over {create, get, update activity, delete, cleanup(max_age), list+mutate, count, clear, "
                       "handle initialize (with/without a live session id), handle request/notification with a session id, tick}; TLC-generated = maximal "
                       "histories of the edge cover of the generation instance; random = seeded sequences (quick 40 ops, thorough 200); "
                       "distinct_nontrivial = distinct operation sequences executed")
    ctx.assumptions += [
        "the clock is the model clock (chuk_mcp.server.session.memory.time replaced by an object whose time() is the model's)",
        "real session ids are renamed 1,2,3.. by first appearance, so a reused id shows as a wrong index",
    ]
    r = tlc.run_tlc("SessionStore", "mc/SessionStore.cfg" if quick else "mc/SessionStore_thorough.cfg", work=os.path.join(ctx.work, "mc"), coverage=True, timeout=1500)
    ctx.add_model_run("mc/SessionStore", r)
    if r.invariant_violated or r.property_violated:
        print("MODEL-STALE: SessionStore violates %s" % (r.invariant_violated + r.property_violated))
    cov = r.coverage()
    for a in ("Create", "Get", "Touch", "Delete", "Cleanup", "ListAndMutate", "Clear", "Tick", "HandleInitialize", "HandleRequest"):
        if cov.get(a, (0, 0))[1] == 0:
            raise Machinery("action %s never taken" % a)
    g = tlc.run_tlc("GenSessionStore", "mc/GenSessionStore.cfg" if quick else "mc/GenSessionStore_thorough.cfg", work=os.path.join(ctx.work, "gen"), workers=1, timeout=1500)
    ps = paths.maximal(g.printed("PATH"))
    if not ps:
        raise Machinery("no generated paths")
    ctx.cov["model_runs"].append({"config": "GenSessionStore", "paths_emitted": len(g.printed("PATH")), "maximal": len(ps)})
    tc = tree_constants()
    rng = random.Random(ctx.seed + 19)
    seqs = [concretise(p, tc["ServerSup"], rng) for p in ps]
    n, length = (300, 40) if quick else (3000, 200)
    seqs += [random_ops(rng, length, tc["ServerSup"]) for _ in range(n)]
    traces = par.pmap(_run, seqs)
    errs = [t for t in traces if isinstance(t, dict)]
    if errs:
        raise Machinery("driver failed: %s" % errs[0]["error"])
    res = validate.validate("SessionStoreTrace", traces, trace_constants(), work=os.path.join(ctx.work, "val"), chunk=300 if quick else 60, heap="2g" if quick else "3g", jobs=16 if quick else 8)
    ctx.cov["states"] += res["states"]
    ctx.cov["transitions"] += res["transitions"]
    ctx.cov["traces_validated_against_impl"] += len(traces)
    ctx.cov["evaluations"] += len(traces)
    ctx.cov["distinct_nontrivial"] = len({json.dumps(s, sort_keys=True, default=str) for s in seqs})
    ctx.cov["samples"] = [traces[0][:6], traces[-1][:8]]
    for i, k in sorted(res["rejected"].items()):
        ev = traces[i][k - 1] if 0 < k <= len(traces[i]) else {}
        sig = "clause=MapLaw op=%s" % ev.get("op")
        ctx.report(sig, "event %d of %d not explained by SessionStore: %s" % (k, len(traces[i]), json.dumps(ev, default=str)[:300]),
                   {"kind": "session_ops", "ops": seqs[i], "stopped_at": k, "clause": sig})
