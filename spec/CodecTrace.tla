----------------------------- MODULE CodecTrace -----------------------------
(* Observed encode / decode results of the two real back ends (worker processes with and     *)
(* without orjson) on concrete JSON values.  A case carries the classes the value contains,  *)
(* the encoder, the path it took, which classes appear raw in the text, whether the text     *)
(* contains a raw LF / CR, and for each decoder whether decoding (from str and from bytes)   *)
(* gave back exactly the value (tagged-tree equality, computed by the harness).              *)
EXTENDS Codec, TraceBatch
VARIABLES tid
Case == Traces[tid]
S(x) == {x[i] : i \in DOMAIN x}
Clauses == <<
  <<"Encodes", Case.ok /\ Case.isstr>>,
  <<"OneFrame", ~Case.rawLF /\ ~Case.rawCR>>,
  <<"RoundTripOrjson", Case.eqOrjson>>,
  <<"RoundTripStdlib", Case.eqStdlib>>,
  <<"PathModel", Case.path = EncPath(Case.enc, S(Case.cs))>>,
  \* raw-ness is observable for the classes whose characters do not occur in JSON syntax itself
  <<"EscapeModel", S(Case.raw) = {c \in S(Case.cs) \cap (StrClasses \ {"ascii", "empty", "quote", "backslash"}) : ~Escaped(Case.path, c)}>>
>>
TInit == tid \in 1..NT /\ enc = Case.enc /\ dec = "orjson" /\ cs = {} /\ phase = "decoded" /\ text = [path |-> "none", raw |-> {}] /\ result = "none"
TNext == UNCHANGED <<vars, tid>>
TSpec == TInit /\ [][TNext]_<<vars, tid>>
Judge == JudgeAll(tid, Clauses, Case.enc) /\ Accept(tid)
=============================================================================
