"""Discovery of the typed request helpers (coroutines taking read_stream, write_stream) and
synthesis of their arguments from the signature.  A helper whose required parameter is unknown
to the table below is a machinery failure, so new helpers are noticed."""
import importlib
import inspect
import pkgutil

ARGS = {
    "uri": "file:///tmp/x.txt",
    "name": "thing",
    "arguments": {"k": "v"},
    "level": "info",
    "ref": {"type": "ref/prompt", "name": "p"},
    "argument": {"name": "a", "value": "v"},
    "resource_uri": "file:///tmp/{x}",
    "prompt_name": "p",
    "argument_name": "a",
    "argument_value": "v",
    "messages": [{"role": "user", "content": {"type": "text", "text": "hi"}}],
    "max_tokens": 10,
    "prompt": "hi",
    "conversation": [("user", "hi")],
    "method": "tools/list",
}

EXCLUDE = {"shutdown_stdio_server"}


def discover():
    """{short name: function} for every coroutine function of chuk_mcp.protocol.messages with
    read_stream and write_stream parameters."""
    import chuk_mcp.protocol.messages as pkg

    found = {}
    for m in pkgutil.walk_packages(pkg.__path__, pkg.__name__ + "."):
        mod = importlib.import_module(m.name)
        for n, f in vars(mod).items():
            if inspect.iscoroutinefunction(f) and getattr(f, "__module__", None) == mod.__name__:
                ps = inspect.signature(f).parameters
                if "read_stream" in ps and "write_stream" in ps and n not in EXCLUDE:
                    found[n] = f
    return found


def kwargs_for(f):
    kw = {}
    for n, p in inspect.signature(f).parameters.items():
        if n in ("read_stream", "write_stream"):
            continue
        if p.default is inspect.Parameter.empty:
            if n not in ARGS:
                raise KeyError("no synthetic argument for parameter %r of %s" % (n, f.__name__))
            kw[n] = ARGS[n]
    return kw


def returns_bool(f):
    r = inspect.signature(f).return_annotation
    return r is bool or r == "bool"
