"""C11: HttpTransport against the real http_client with a scripted httpx transport."""
import json
import os
import random

from harness import tlc, validate, par
from harness.common import Machinery
from harness.drivers import http_drv

CONSTS = {"MaxPosts": 1000, "Sessions": {"s1", "s2"}}
OK = {"status": 200, "ctype": "json", "body": "resp", "enc": "std", "exc": "none", "sess": "absent"}
REPR = [OK, dict(OK, status=500, ctype="other", body="text"), dict(OK, exc="connect", ctype="absent", body="empty"), dict(OK, sess="s1"), dict(OK, sess="s2", ctype="sse"),
        dict(OK, status=202, ctype="absent", body="empty")]
IDCS = ["str", "int", "int0", "strEmpty", "strDigit"]


def _run_real(plans):
    return http_drv.run_real_socket(plans)


def _run(chunk):
    return http_drv.run_sequences(chunk)


def matrix(ctx):
    g = tlc.run_tlc("GenHttpTransport", "mc/GenHttpTransport.cfg", work=os.path.join(ctx.work, "gen"), workers=1, timeout=900)
    ps = g.printed("PATH")
    seen = set()
    out = []
    for p in ps:
        k = json.dumps(p, sort_keys=True)
        if k not in seen:
            seen.add(k)
            out.append(p)
    if len(out) < 100:
        raise Machinery("behaviour matrix has only %d entries" % len(out))
    ctx.cov["model_runs"].append({"config": "mc/GenHttpTransport.cfg", "matrix_entries": len(out)})
    return out


def step(p, rng, idc=None):
    return {"kind": p["kind"], "idc": idc or rng.choice(IDCS), "beh": p["beh"]}


def check_c11(ctx):
    quick = ctx.tier == "quick"
    ctx.cov["rule"] = ("cases = sequences of POST steps (kind, id class, endpoint behaviour): the matrix of meaningful behaviours {status 200/202/204/302/404/500} x {content-type json/event-stream/other/absent} x "
                       "{body: response, non-object result, error response, batch array, notifications+response, wrong id, empty, truncated, non-JSON, non-UTF-8, text} x 7 SSE encodings x "
                       "{connect error, read timeout, protocol error} x {session header absent/s1/s2} is enumerated by TLC; every entry is executed alone (followed by a probe request) with every id class, "
                       "after a session-issuing response, and inside seeded sequences of length 4; distinct_nontrivial = distinct sequences")
    ctx.assumptions += ["httpx is scripted with httpx.MockTransport (thorough tier repeats a sample over a real local socket is not built: see DESIGN)",
                        "202/204/empty body for a request: one synthesised terminal of either kind is accepted (the statement does not say it must be an error)",
                        "a session id counts as issued when it arrives on a response with status < 400"]
    r = tlc.run_tlc("HttpTransport", "mc/HttpTransport.cfg", work=os.path.join(ctx.work, "mc"), timeout=900, coverage=True)
    ctx.add_model_run("mc/HttpTransport.cfg", r)
    if r.invariant_violated or r.property_violated:
        print("MODEL-STALE: HttpTransport violates %s" % (r.invariant_violated + ["property:" + str(x) for x in r.property_violated]))
    mx = matrix(ctx)
    rng = random.Random(ctx.seed + 11)
    probe = {"kind": "request", "idc": "str", "beh": OK}
    seqs = []
    for p in mx:
        ids = IDCS if p["kind"] == "request" else ["none"]
        if quick and p["kind"] == "request":
            ids = ["str", rng.choice(IDCS[1:])]
        for idc in ids:
            seqs.append([step(p, rng, idc), probe])
        seqs.append([{"kind": "request", "idc": "str", "beh": dict(OK, sess="s1")}, step(p, rng), probe])
    for _ in range(400 if quick else 20000):
        s = []
        full = rng.randrange(4)
        for i in range(4):
            if i == full:
                s.append(step(rng.choice(mx), rng))
            else:
                s.append({"kind": "request", "idc": rng.choice(IDCS), "beh": rng.choice(REPR)})
        seqs.append(s + [probe])
    chunks = [seqs[i:i + 100] for i in range(0, len(seqs), 100)]
    traces = [t for ch in par.pmap(_run, chunks, chunksize=1) for t in ch]
    # a few sequences over a real loopback socket with the real clock: a POST the server never
    # answers must end in a synthesised terminal within the configured timeout, and the next
    # request must still be served (the scripted httpx transport cannot stall)
    plans = [["ok", "stall", "ok"], ["stall", "stall", "ok"], ["lateAnswer", "ok"]] * (1 if quick else 4)
    real = [t for ch in par.pmap(_run_real, [[p] for p in plans], jobs=4, chunksize=1) for t in ch]
    ctx.cov["real_socket_sequences"] = len(real)
    for p, t in zip(plans, real):
        seqs.append([{"kind": "request", "idc": "int", "beh": e["beh"], "real": k} for k, e in zip(p, t)])
        traces.append(t)
    res = validate.validate("HttpTransportTrace", traces, CONSTS, work=os.path.join(ctx.work, "val"), chunk=400)
    if res["rejected"]:
        i = sorted(res["rejected"])[0]
        raise Machinery("http trace not consumed: %s" % json.dumps(traces[i])[:400])
    ctx.cov["states"] += res["states"]
    ctx.cov["transitions"] += res["transitions"]
    ctx.cov["traces_validated_against_impl"] += len(traces)
    ctx.cov["evaluations"] += sum(len(t) for t in traces)
    ctx.cov["distinct_nontrivial"] = len({json.dumps(s, sort_keys=True) for s in seqs})
    ctx.cov["samples"] = [traces[0], traces[-1]]
    failed_full = res.get("failed_detail", {})
    for i in sorted(res["failed"]):
        for clause, stepno in res["failed_pairs"][i]:
            ev = traces[i][stepno - 1]
            b = ev["beh"]
            if clause == "Allowed":
                what = "no-terminal" if not ev["items"] else "items=%s" % ",".join("%s/%s/%s" % tuple(x) for x in ev["items"])
                sig = "clause=Allowed kind=%s id=%s status=%d ctype=%s body=%s enc=%s exc=%s observed=%s" % (ev["kind"], ev["idc"] if ev["idc"] in ("int0", "strEmpty") else "any", b["status"], b["ctype"], b["body"], b["enc"], b["exc"], what)
            else:
                sig = "clause=%s" % clause
            ctx.report(sig, "step %d of %s" % (stepno, json.dumps([[e["kind"], e["idc"], e["beh"]["status"], e["beh"]["ctype"], e["beh"]["body"], e["beh"]["enc"], e["beh"]["exc"], e["beh"]["sess"]] for e in traces[i]])[:400]),
                       {"kind": "http_seq", "seq": seqs[i], "clause": clause, "step": stepno})
