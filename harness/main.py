"""./check entry point."""
import argparse
import json
import os
import sys
import traceback

from harness import common, tlc, validate


def registry():
    from harness.props import reqwait, errorclass, session, dispatch, handshake, versioning, framing, framing_out, lifecycle, host, http, sse, codec, models, carrier
    return {
        "C15": carrier.check_c15,
        "C02": models.check_c02,
        "C09": models.check_c09,
        "C10": models.check_c10,
        "C17": codec.check_c17,
        "C12": sse.check_c12,
        "C11": http.check_c11,
        "C20": host.check_c20,
        "C16": lifecycle.check_c16,
        "C06": framing_out.check_c06,
        "C05": framing.check_c05,
        "C13": versioning.check_c13,
        "C03": handshake.check_c03,
        "C04": handshake.check_c04,
        "C08": dispatch.check_c08,
        "C19": session.check_c19,
        "C07": errorclass.check_c07,
        "C01": reqwait.check_c01,
        "C14": reqwait.check_c14,
        "C18": reqwait.check_c18,
    }


def setup():
    ok = True
    os.makedirs(common.EVIDENCE, exist_ok=True)
    os.makedirs(common.WORK, exist_ok=True)
    specdir = os.path.join(common.VERIF, "spec")
    for f in sorted(os.listdir(specdir)):
        if f.endswith(".tla"):
            good, out = tlc.sany(os.path.join(specdir, f))
            print("SANY %-28s %s" % (f, "ok" if good else "FAILED"))
            if not good:
                print(out[-1500:])
                ok = False
    import compileall
    ok = compileall.compile_dir(os.path.join(common.VERIF, "harness"), quiet=1, legacy=False) and ok
    return 0 if ok else 2


def main():
    ap = argparse.ArgumentParser()
    ap.add_argument("pid", nargs="?")
    ap.add_argument("--tier", default=os.environ.get("VERIF_TIER", "quick"))
    ap.add_argument("--replay")
    ap.add_argument("--setup", action="store_true")
    a = ap.parse_args()
    if a.setup:
        sys.exit(setup())
    common.setup_paths()
    try:
        seed = int(os.environ.get("VERIF_SEED", "0"))
    except ValueError:
        seed = 0
    tier = a.tier if a.tier in ("quick", "thorough") else "quick"
    if a.replay:
        from harness import replay
        sys.exit(replay.run(a.replay))
    reg = registry()
    if a.pid not in reg:
        print("unknown property %r; known: %s" % (a.pid, sorted(reg)))
        sys.exit(2)
    ctx = common.Ctx(a.pid, tier, seed)
    try:
        reg[a.pid](ctx)
        rc = ctx.finish()
    except validate.TraceEvalError as e:
        # the real code produced an observation the trace specification cannot even evaluate
        for trace, l, msg in e.items[:5]:
            ctx.report("clause=ObservationOutsideModel spec=%s" % e.module,
                       "event %d of a recorded run has a shape the specification does not know (%s): %s" % (l, msg, json.dumps(trace, default=str)[:400]),
                       {"kind": "raw_trace", "module": e.module, "trace": trace, "event": l})
        sys.exit(ctx.finish())
    except (common.Machinery, tlc.TLCError) as e:
        print("MACHINERY-FAILURE %s: %s" % (a.pid, e))
        traceback.print_exc()
        sys.exit(2)
    sys.exit(rc)


if __name__ == "__main__":
    main()
