"""Running TLC / SANY and reading back what they say."""
import json
import os
import re
import shutil
import subprocess
import time

VERIF = os.path.dirname(os.path.dirname(os.path.abspath(__file__)))
SPEC = os.path.join(VERIF, "spec")
WORK = os.path.join(VERIF, ".work")
JAR = "/opt/veriftools/tla/tla2tools.jar:/opt/veriftools/tla/CommunityModules-deps.jar"


class TLCError(RuntimeError):
    pass


class TLCResult:
    def __init__(self, out, rc, wall):
        self.out = out
        self.rc = rc
        self.wall = wall
        self.generated = 0
        self.distinct = 0
        self.depth = 0
        m = re.findall(r"(\d+) states generated, (\d+) distinct states found", out)
        if m:
            self.generated, self.distinct = int(m[-1][0]), int(m[-1][1])
        m = re.findall(r"depth of the complete state graph search is (\d+)", out)
        if m:
            self.depth = int(m[-1])
        self.invariant_violated = re.findall(r"Invariant (\w+) is violated", out)
        self.invariant_violated += re.findall(r"The invariant of (\w+) is equal to FALSE", out)
        self.property_violated = re.findall(
            r"(?:Action property|Temporal properties?) (\w+)? ?(?:is|were) violated", out
        )
        self.finished = "Model checking completed" in out or "Finished in" in out
        self.error = None
        if rc != 0 and not self.invariant_violated and not self.property_violated:
            # 12 = safety violation, 13 = liveness violation; anything else is machinery
            if rc not in (12, 13):
                self.error = out[-3000:]

    def coverage(self):
        """Per-action counts from -coverage output: {action: (distinct, generated)}."""
        cov = {}
        for m in re.finditer(
            r"<(\w+) line \d+, col \d+ to line \d+, col \d+ of module (\w+)>: (\d+):(\d+)",
            self.out,
        ):
            name, _mod, d, g = m.group(1), m.group(2), int(m.group(3)), int(m.group(4))
            a, b = cov.get(name, (0, 0))
            cov[name] = (a + d, b + g)
        return cov

    def printed(self, tag):
        """Values printed as PrintT(<<"tag", json-string>>), decoded."""
        res = []
        pat = re.compile(r'^<<"' + re.escape(tag) + r'", (".*")>>$', re.M)
        for m in pat.finditer(self.out):
            s = m.group(1)
            try:
                res.append(json.loads(json.loads(s)))
            except Exception:
                # TLA+ string escapes are a subset of JSON's apart from nothing we emit
                res.append(json.loads(_tla_unescape(s)))
        return res


def _tla_unescape(s):
    body = s[1:-1]
    out = []
    i = 0
    while i < len(body):
        ch = body[i]
        if ch == "\\" and i + 1 < len(body):
            nx = body[i + 1]
            out.append({"n": "\n", "t": "\t", "r": "\r", "f": "\f"}.get(nx, nx))
            i += 2
        else:
            out.append(ch)
            i += 1
    return "".join(out)


def workdir(name):
    d = os.path.join(WORK, name)
    shutil.rmtree(d, ignore_errors=True)
    os.makedirs(d, exist_ok=True)
    return d


def run_tlc(
    module,
    cfg,
    *,
    work,
    workers=16,
    env=None,
    extra=(),
    timeout=600,
    coverage=False,
    deadlock=False,
    heap="4g",
    dfs=False,
):
    """Run TLC on spec/<module>.tla with the config file `cfg` (absolute or relative to
    spec/). Returns a TLCResult.  Raises TLCError on machinery failure (parse error, crash,
    timeout)."""
    tla = module if os.path.isabs(module) else os.path.join(SPEC, module + ".tla")
    cfgp = cfg if os.path.isabs(cfg) else os.path.join(SPEC, cfg)
    meta = os.path.join(work, "meta_%d_%d" % (os.getpid(), int(time.time() * 1e6) % 10**9))
    cmd = ["java", "-XX:+UseParallelGC", "-Xmx" + heap, "-DTLA-Library=" + SPEC]
    if dfs:
        cmd.append("-Dtlc2.tool.queue.IStateQueue=StateDeque")
    cmd += [
        "-cp",
        JAR,
        "tlc2.TLC",
        "-workers",
        str(workers),
        "-metadir",
        meta,
        "-noGenerateSpecTE",
        "-config",
        cfgp,
    ]
    if coverage:
        cmd += ["-coverage", "1"]
    if not deadlock:
        cmd += ["-deadlock"]
    cmd += list(extra)
    cmd.append(tla)
    e = dict(os.environ)
    e.pop("JAVA_TOOL_OPTIONS", None)
    if env:
        e.update({k: str(v) for k, v in env.items()})
    t0 = time.time()
    try:
        p = subprocess.run(
            cmd,
            cwd=os.path.dirname(tla),
            env=e,
            stdout=subprocess.PIPE,
            stderr=subprocess.STDOUT,
            timeout=timeout,
            text=True,
        )
    except subprocess.TimeoutExpired as ex:
        raise TLCError(f"TLC timed out after {timeout}s: {' '.join(cmd)}") from ex
    finally:
        shutil.rmtree(meta, ignore_errors=True)
    r = TLCResult(p.stdout, p.returncode, time.time() - t0)
    if r.error:
        try:
            with open(os.path.join(work, module + ".lasterr.out"), "w") as f:
                f.write(p.stdout)
        except OSError:
            pass
        err = TLCError(f"TLC failed (rc={p.returncode}) on {module} / {cfg}:\n{r.error}")
        err.out = p.stdout
        raise err
    return r


def sany(path):
    p = subprocess.run(
        ["java", "-cp", JAR, "tla2sany.SANY", path],
        cwd=os.path.dirname(path),
        stdout=subprocess.PIPE,
        stderr=subprocess.STDOUT,
        text=True,
    )
    ok = p.returncode == 0 and "Semantic errors" not in p.stdout and "***Parse Error***" not in p.stdout
    return ok, p.stdout
