---- MODULE MC_BatchGate ----
EXTENDS BatchGate, Json
MCVersions == {NoVersion, <<2024, 11, 5>>, <<2025, 3, 26>>, <<2025, 6, 17>>, <<2025, 6, 18>>, <<2025, 6, 19>>, <<2026, 1, 1>>}
====
