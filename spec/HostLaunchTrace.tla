-------------------------- MODULE HostLaunchTrace --------------------------
(* Real runs of load_config / __main__.test_server / run_command on generated configuration  *)
(* files with witness children.  A case:                                                      *)
(*   [entry, malformed, cfg: sequence of [args, env, timeout] classes,                         *)
(*    obs: [outcome, spawned: sequence of [server, argsOk, envOk, exeOk], handshakes: set,     *)
(*          paramsOk, timeoutOk]]                                                              *)
(* argsOk / envOk / exeOk / paramsOk / timeoutOk are exact comparisons of the concrete values  *)
(* (argv list, environment restricted to the configured names, loader's return) made by the    *)
(* driver; TLC judges the outcome structure against HostLaunch.                                *)
EXTENDS HostLaunch, TraceBatch

VARIABLES tid
Case == Traces[tid]
O == Case.obs
NS == Len(Case.cfg)
Tg == IF Case.entry = "runner" THEN 1..NS ELSE {1}
Seq2Set(s) == {s[i] : i \in DOMAIN s}

Expected ==
  IF Case.malformed # "none"
  THEN IF Case.entry = "loader"
       THEN CASE Case.malformed = "missingFile" -> "FileNotFoundError"
              [] Case.malformed = "invalidJson" -> "JSONDecodeError"
              [] Case.malformed = "unknownServer" -> "ValueError"
       ELSE "reportedFailure"
  ELSE IF Case.entry = "loader" THEN "params" ELSE "connected"

Clauses == <<
  <<"Outcome", O.outcome = Expected>>,
  <<"LaunchesExactlyConfigured",
      Case.malformed = "none" /\ Case.entry # "loader" =>
         /\ {O.spawned[i].server : i \in DOMAIN O.spawned} = Tg /\ Len(O.spawned) = Cardinality(Tg)
         /\ \A i \in DOMAIN O.spawned : O.spawned[i].argsOk /\ O.spawned[i].envOk /\ O.spawned[i].exeOk
         /\ Seq2Set(O.handshakes) = Tg>>,
  <<"LoaderReturnsConfigured", Case.malformed = "none" /\ Case.entry = "loader" => O.paramsOk /\ O.timeoutOk>>,
  <<"MalformedSpawnsNothing",
      /\ (Case.malformed \in {"missingFile", "invalidJson"} => O.spawned = <<>>)
      /\ (Case.malformed = "unknownServer" => \A i \in DOMAIN O.spawned : O.spawned[i].server # 1)>>   \* the unknown name is server 1
>>
TInit == tid \in 1..NT /\ entry = Case.entry /\ malformed = Case.malformed /\ cfg = <<>> /\ phase = "done"
         /\ loaded = {} /\ spawned = <<>> /\ handshakes = {} /\ outcome = "none"
         /\ run = 1 /\ hostEpoch = 0 /\ snapshot = NoSnapshot
TNext == UNCHANGED <<vars, tid>>
TSpec == TInit /\ [][TNext]_<<vars, tid>>
Judge == JudgeAll(tid, Clauses, Case.entry) /\ Accept(tid)
=============================================================================
