"""./check --replay FILE : re-execute a recorded counterexample against /repo and re-judge it."""
import json


def run(path):
    rec = json.load(open(path))
    rep = rec["replay"]
    kind = rep.get("kind")
    print("replaying %s (%s): %s" % (path, rec.get("property"), rec.get("signature")))
    if kind == "request_wait":
        from harness.props import reqwait
        verdict, trace = reqwait.replay_file(rep)
        print(json.dumps(trace["ev"]))
        print("verdict:", verdict)
        bad = rep["clause"] in verdict["clauses"]
    else:
        from harness.props import generic
        bad = generic.replay(rep)
    if bad:
        print("VIOLATION property=%s replay=%s" % (rec.get("property"), path))
        return 1
    print("not reproduced on the current tree")
    return 0
