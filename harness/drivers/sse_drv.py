"""C12 driver: the real sse_client / SSETransport against a scripted httpx transport (GET event
stream fed chunk by chunk, POST replies resolved by the schedule) under the virtual clock."""
import asyncio
import json
import logging
import random

import anyio
import httpx

from harness import vloop
from harness.drivers import httpx_seam
from harness.drivers.stdio_drv import idle, drain

logging.disable(logging.CRITICAL)

UNIT = 1.0          # one model time unit
TIMEOUT_UNITS = 2
# how long (virtual seconds) the script waits for the context to be entered / for the POST of a
# request it wrote, before it records that this never happened; both are several timeouts long
ENTER_WAIT = 4 * TIMEOUT_UNITS * UNIT
POST_WAIT = 3 * TIMEOUT_UNITS * UNIT
# loop iterations one scripted run may take (a run needs a few thousand); beyond it the run
# counts as hung
MAX_ITER = 400000

# server messages may talk about anything, e.g. URLs that look like message endpoints
SRV_TEXT = "d \u00e9 https://example.com/mcp/readme.md /messages/?session_id=zzz"

ANNOUNCE_FORMS = [
    "event: endpoint\ndata: /messages/?session_id=abc123\n\n",
    "event: endpoint\r\ndata: /messages/?session_id=abc123\r\n\r\n",
    "data: /messages/?session_id=abc123\n\n",
    "event: endpoint\ndata: http://verif.invalid/messages/?session_id=abc123\n\n",
    "event: endpoint\ndata: session_id=abc123\n\n",
    ": hello\nevent: endpoint\ndata: /mcp?session_id=abc123\n\n",
]


class FedStream(httpx.AsyncByteStream):
    def __init__(self):
        self.q = asyncio.Queue()
        self.closed = False

    def feed(self, b):
        self.q.put_nowait(b)

    def end(self):
        self.q.put_nowait(None)

    async def __aiter__(self):
        while True:
            b = await self.q.get()
            if b is None:
                return
            yield b

    async def aclose(self):
        self.closed = True


def chunked(data, rng, maxcuts=3):
    n = rng.randrange(0, maxcuts + 1)
    cuts = set(rng.randrange(1, len(data)) for _ in range(n)) if len(data) > 1 else set()
    inside = [i for i in range(1, len(data)) if 0x80 <= data[i] <= 0xBF]     # inside a multi-byte character
    if inside and rng.random() < 0.5:
        cuts.add(rng.choice(inside))
    cuts = sorted(cuts)
    return [data[a:b] for a, b in zip([0] + cuts, cuts + [len(data)])]


def run_scripts(cases):
    """cases: list of (path record from GenSseTransport, seed).  Returns trace records."""
    from chuk_mcp.transports.sse.sse_client import sse_client
    from chuk_mcp.transports.sse.parameters import SSEParameters
    from chuk_mcp.protocol.messages.json_rpc_message import JSONRPCRequest

    out = []

    async def one(path, seed):
        rng = random.Random(seed)
        estab = path["estab"]
        stream = FedStream()
        posts = []          # futures of POST handlers, in order
        evs = []
        t0 = vloop.now()
        idshape = rng.choice(["str", "int", "digits"])
        rid = {"str": "sse-req-1", "int": 5, "digits": "42"}[idshape]
        exit_path = rng.choice(["normal", "exception", "outerCancel"])

        async def handler(request):
            if request.method == "GET":
                if estab == "connectError":
                    raise httpx.ConnectError("All connection attempts failed")
                if estab == "status4xx":
                    return httpx.Response(rng.choice([404, 401, 500, 503]), content=b"nope")
                if estab == "streamEnds":
                    stream.end()
                return httpx.Response(200, headers={"content-type": "text/event-stream"}, stream=stream)
            fut = asyncio.get_running_loop().create_future()
            posts.append(fut)
            body = json.loads(request.content.decode() or "null")
            r = await fut
            if r == "exc":
                raise httpx.ReadError("connection reset")
            if r == "r200":
                return httpx.Response(200, headers={"content-type": "application/json"},
                                      content=json.dumps({"jsonrpc": "2.0", "id": body.get("id"), "result": {"marker": "post", "t": "é\U0001F600"}}).encode())
            if r == "r202":
                return httpx.Response(202, content=b"")
            if r == "r500":
                # any status other than 200 / 202, with whatever body such an answer comes with
                form = rng.randrange(4)
                if form == 0:
                    return httpx.Response(500, content=b"internal error")
                if form == 1:
                    return httpx.Response(404, headers={"content-type": "application/json"}, content=b'{"detail":"Not Found"}')
                if form == 2:
                    return httpx.Response(400, headers={"content-type": "application/json"}, content=b'["not", "a", "message"]')
                return httpx.Response(503, headers={"content-type": "application/json"}, content=b'')
            return httpx.Response(202, content=b"")      # acknowledgement of a notification

        def ev(e, **kw):
            d = {"e": e, "t": int(round((vloop.now() - t0) / UNIT))}
            d.update(kw)
            evs.append(d)

        def event_bytes(obj):
            # an event without a type is a message event too (the default type)
            form = rng.choice(["event: message\ndata: %s\n\n", "event: message\r\ndata: %s\r\n\r\n", "data: %s\n\n", ": keep-alive\ndata: %s\n\n"])
            return (form % json.dumps(obj, ensure_ascii=False, separators=(",", ":"))).encode("utf-8")

        got = []
        state = {"rs": None, "ws": None, "tr": None, "entered": False}
        steps = [h for h in path["h"] if h["a"] in ("Announce", "SendRequest", "Event", "PostReply", "ServerMsg", "Exit")]
        srvn = [0]
        unposted = [0]

        class BodyError(Exception):
            pass

        async def script(scope):
            for i, h in enumerate(steps):
                await vloop.sleep_until(t0 + h["t"] * UNIT)
                a = h["a"]
                if a == "Announce":
                    for c in chunked(rng.choice(ANNOUNCE_FORMS).encode(), rng, 2):
                        stream.feed(c)
                    ev("Announce")
                elif a == "SendRequest":
                    if not await vloop.wait_until(lambda: state["entered"], ENTER_WAIT):
                        # entering neither returned nor raised long after the timeout: the rest
                        # of the schedule cannot be played (the Enter clauses judge this run)
                        return "end"
                    msg = JSONRPCRequest(jsonrpc="2.0", id=rid, method="tools/list", params={})
                    await state["ws"].send(msg if rng.random() < 0.5 else msg.model_dump(exclude_none=True))
                    ev("SendRequest")
                    await idle(2)
                elif a == "Event":
                    data = event_bytes({"jsonrpc": "2.0", "id": rid, "result": {"marker": "event", "t": "\u00e9\U0001F600\u2028"}})
                    for c in chunked(data, rng):
                        stream.feed(c)
                    ev("Event")
                elif a == "PostReply":
                    if await vloop.wait_until(lambda: bool(posts), POST_WAIT):
                        posts[0].set_result(h["r"])
                        ev("PostReply", r=h["r"])
                    else:
                        # the request written on the write stream was never POSTed to the
                        # announced endpoint: the server cannot answer it
                        unposted[0] += 1
                        ev("NoPost", r=h["r"])
                elif a == "ServerMsg":
                    srvn[0] += 1
                    obj = {"jsonrpc": "2.0", "method": "notifications/message", "params": {"marker": srvn[0], "level": "info", "data": SRV_TEXT}}
                    if srvn[0] % 2 == 0:
                        obj = {"jsonrpc": "2.0", "id": "srv-%d" % srvn[0], "method": "roots/list", "params": {"marker": srvn[0]}}
                    for c in chunked(event_bytes(obj), rng):
                        stream.feed(c)
                    ev("ServerMsg")
                elif a == "Exit":
                    # timers of this model instant (armed a few virtual ms late because settling
                    # costs virtual milliseconds) fire before the context is left
                    await anyio.sleep(0.25)
                    await idle(3)
                    got.extend(drain(state["rs"]))
                    ev("Exit", path=exit_path)
                    return "exit"
                # let the transport react unless the next environment step belongs to the same
                # instant and the model took no system step in between
                await idle(3)
                if state["rs"] is not None:
                    got.extend(drain(state["rs"]))
            return "end"

        tasks_before = len(asyncio.all_tasks())
        entered = "no"
        clients = []
        import sys
        mod = sys.modules["chuk_mcp.transports.sse.sse_client"]
        RealT = mod.SSETransport
        transports = []

        class SpyTransport(RealT):
            def __init__(self, *a, **kw):
                super().__init__(*a, **kw)
                transports.append(self)

        mod.SSETransport = SpyTransport
        with httpx_seam.seam(handler) as created:
            params = SSEParameters(url="http://verif.invalid", timeout=float(TIMEOUT_UNITS * UNIT))
            try:
                async with anyio.create_task_group() as tg:
                    scope = anyio.CancelScope()
                    runner = {"res": None}

                    async def run_script():
                        runner["res"] = await script(scope)
                        # outer cancellation is an exit path of an ENTERED context
                        if exit_path == "outerCancel" and runner["res"] == "exit":
                            await vloop.wait_until(lambda: state["entered"], ENTER_WAIT)
                            scope.cancel()

                    try:
                        with scope:
                            pre = [h for h in steps if h["a"] == "Announce"]
                            tg.start_soon(run_script)
                            async with sse_client(params) as (rs, ws):
                                state.update(rs=rs, ws=ws, entered=True)
                                entered = "returned"
                                tr = [c for c in created]
                                ev("Enter", r="returned", url=bool(transports and transports[0].is_connected()))
                                while runner["res"] is None:
                                    await anyio.sleep(0.01)
                                if exit_path == "exception":
                                    raise BodyError()
                                if exit_path == "outerCancel":
                                    await anyio.sleep(100)
                    except BodyError:
                        pass
                    except BaseException as e:  # noqa
                        if isinstance(e, (KeyboardInterrupt, SystemExit)):
                            raise
                        if entered == "no":
                            entered = "raised"
                            ev("Enter", r="raised", url=False, exc=type(e).__name__)
                    tg.cancel_scope.cancel()
            except BaseException as e:  # noqa
                if isinstance(e, (KeyboardInterrupt, SystemExit)):
                    raise
            clients = list(created)
        mod.SSETransport = RealT
        await idle(3)
        # after the exit
        if state["rs"] is not None:
            got.extend(drain(state["rs"]))
        closed_streams = True
        if state["ws"] is not None:
            try:
                state["ws"].send_nowait({"x": 1})
                closed_streams = False
            except (anyio.ClosedResourceError, anyio.BrokenResourceError):
                pass
            except anyio.WouldBlock:
                closed_streams = False
        # tasks still alive although the context was left (before the scripted endpoint lets go of
        # the POSTs it never answered)
        leaked = len(asyncio.all_tasks()) - tasks_before
        for f in posts:
            if not f.done():
                f.cancel()
        await idle(2)
        items = []
        for m in got:
            d = m.model_dump(exclude_none=True) if hasattr(m, "model_dump") else m
            mid = d.get("id")
            mk = None
            for part in ("result", "params"):
                if isinstance(d.get(part), dict):
                    mk = d[part].get("marker", mk)
            if d.get("method") is not None:
                if d.get("method") == "notifications/message":
                    intact = (d.get("params") or {}).get("data") == SRV_TEXT
                else:
                    intact = d.get("method") == "roots/list" and d.get("params") == {"marker": mk}
                items.append(["srv", "srv", mk if isinstance(mk, int) else 0, True, bool(intact)])
            else:
                same = mid == rid and type(mid) is type(rid)
                src = mk if mk in ("post", "event") else "synth"
                want = {"post": "\u00e9\U0001F600", "event": "\u00e9\U0001F600\u2028"}.get(src)
                intact = want is None or (d.get("result") or {}).get("t") == want
                items.append(["own" if same else ("ownWrongType" if str(mid) == str(rid) else "other"), src, 0, same, bool(intact)])
        ev("End", read=items, tasks=max(leaked, len(asyncio.all_tasks()) - tasks_before), clients=all(c.is_closed for c in clients), streams=closed_streams,
           expReq=path["req"], expOwn=path["own"], expSrv=path["srv"], expSrc=path.get("src", "none"), unposted=unposted[0])
        return {"estab": estab, "ev": evs, "idshape": idshape, "exit": exit_path}

    for path, seed in cases:
        box = []

        async def main(path=path, seed=seed, box=box):
            box.append(await one(path, seed))

        try:
            vloop.run(main, max_iter=MAX_ITER)
            out.append(box[0])
        except vloop.Deadlock:
            # nothing can ever happen again: leaving the context (or entering it) hangs
            out.append({"estab": path["estab"], "idshape": "n/a", "exit": "hung",
                        "ev": [{"e": "End", "t": 0, "read": [], "tasks": 99, "clients": False, "streams": False, "expReq": path["req"], "expOwn": path["own"], "expSrv": path["srv"], "expSrc": path.get("src", "none"), "unposted": 0, "hung": True}]})
    return out
