---- MODULE GenStdioFraming ----
(* chunkings generated from StdioFraming: for every stream of the generation instance every *)
(* behaviour (sequence of chunk sizes with at most MaxCuts cuts) is printed when it ends    *)
EXTENDS StdioFraming, Json
VARIABLE hist
GInit == Init /\ hist = <<>>
GNext ==
  \/ \E n \in 1..(S.len - pos) : (pos + n < S.len => cuts < MaxCuts) /\ ReadChunkOf(n) /\ hist' = Append(hist, n)
  \/ EndOfStream /\ UNCHANGED hist
GSpec == GInit /\ [][GNext]_<<vars, hist>>
Emit == eof' /\ ~eof => PrintT(<<"PATH", ToJson([sid |-> sid.id, sizes |-> hist])>>)
====
