--------------------------- MODULE StdioFraming ---------------------------
(***************************************************************************)
(* Inbound framing of the stdio transport (C05):                           *)
(*   chuk_mcp/transports/stdio/stdio_client.py  _stdout_reader,            *)
(*   _process_message_data, _route_message                                 *)
(*                                                                         *)
(* The child writes a byte stream; the operating system hands it to the    *)
(* reader in chunks of its own choosing.  A stream is described by         *)
(*   len    number of bytes                                                *)
(*   ends   position of the LF byte that ends line j                       *)
(*   wf     line j is a well-formed JSON-RPC message                       *)
(*   notif  line j is a notification                                       *)
(*   upto   upto[p] = number of lines that end within the first p bytes  *)
(*   mid    positions p such that a cut after byte p falls inside a        *)
(*          multi-byte UTF-8 character                                     *)
(* (generated from concrete streams by the harness: spec/gen/).  The       *)
(* environment chooses the cuts (ReadChunk).  Decoding is incremental; the *)
(* deviation DecodePerChunk describes a reader that decodes every chunk on *)
(* its own and dies on a chunk that starts or ends inside a character.     *)
(***************************************************************************)
EXTENDS Naturals, Sequences, FiniteSets, TLC

CONSTANTS Streams,         \* sequence of stream records [id, len, ends, wf, notif, upto, mid]
          MaxCuts,
          DecodePerChunk   \* deviation

VARIABLES sid, pos, delivered, notified, alive, cuts, eof
vars == <<sid, pos, delivered, notified, alive, cuts, eof>>

S == sid          \* the stream being read (chosen once, in Init; it carries its own description)
NLines(s) == Len(s.ends)

\* lines whose terminator lies in (p, q], in order (ends is increasing, so they are contiguous)
\* s.upto[p] = number of lines terminated within the first p bytes (overridden by a count over
\* `ends` in the trace specification, where streams are long)
Upto(s, p) == IF p = 0 THEN 0 ELSE s.upto[p]
LinesIn(s, j0, p, q) == [k \in 1..(Upto(s, q) - Upto(s, p)) |-> Upto(s, p) + k]
Keep(js, f) == SelectSeq(js, LAMBDA j : f[j])

\* what the child's well-formed lines are, independent of any cut
Expected(s) == Keep(LinesIn(s, 1, 0, s.len), s.wf)
ExpectedNotifs(s) == Keep(Expected(s), s.notif)

Init ==
  /\ sid \in {Streams[i] : i \in DOMAIN Streams}
  /\ pos = 0 /\ delivered = <<>> /\ notified = <<>> /\ alive = TRUE /\ cuts = 0 /\ eof = FALSE

ReadChunkOf(n) ==
  /\ alive /\ ~eof /\ pos + n <= S.len
  /\ IF DecodePerChunk /\ (pos \in S.mid \/ (pos + n) \in S.mid)
     THEN \* UnicodeDecodeError escapes the loop: the reader task ends, nothing is delivered any more
          /\ alive' = FALSE
          /\ UNCHANGED <<delivered, notified>>
     ELSE /\ delivered' = delivered \o Keep(LinesIn(S, 1, pos, pos + n), S.wf)
          /\ notified' = notified \o Keep(Keep(LinesIn(S, 1, pos, pos + n), S.wf), S.notif)
          /\ UNCHANGED alive
  /\ pos' = pos + n
  /\ cuts' = IF pos + n < S.len THEN cuts + 1 ELSE cuts
  /\ UNCHANGED <<sid, eof>>

ReadChunk == \E n \in 1..(S.len - pos) : (pos + n < S.len => cuts < MaxCuts) /\ ReadChunkOf(n)

EndOfStream ==
  /\ pos = S.len /\ ~eof /\ eof' = TRUE
  /\ UNCHANGED <<sid, pos, delivered, notified, alive, cuts>>

Next == ReadChunk \/ EndOfStream
Spec == Init /\ [][Next]_vars

-----------------------------------------------------------------------------
IsPrefix(a, b) == Len(a) <= Len(b) /\ SubSeq(b, 1, Len(a)) = a
\* notifications are additionally OFFERED on a bounded stream (NotifyBuffer slots, send_nowait):
\* what is seen there is an in-order selection of the notifications, complete whenever the
\* consumer keeps up (never more than NotifyBuffer of them outstanding)
NotifyBuffer == 100
\* line indices are distinct and increasing, so "in-order selection" is: increasing and drawn from b
IsSubSeqOf(a, b) == /\ \A i \in 1..(Len(a) - 1) : a[i] < a[i + 1]
                    /\ {a[i] : i \in DOMAIN a} \subseteq {b[i] : i \in DOMAIN b}
NotifiedOk(s) == IF Len(ExpectedNotifs(s)) <= NotifyBuffer THEN IsPrefix(notified, ExpectedNotifs(s)) ELSE IsSubSeqOf(notified, ExpectedNotifs(s))
PrefixOk == IsPrefix(delivered, Expected(S)) /\ NotifiedOk(S)
\* everything the child wrote and terminated has been delivered once the bytes are read
CompleteAtEnd == pos = S.len => delivered = Expected(S) /\ (Len(ExpectedNotifs(S)) <= NotifyBuffer => notified = ExpectedNotifs(S))
ReaderSurvives == alive
\* at every moment: exactly the well-formed lines terminated so far, whatever the cuts
ChunkIndependent == alive => delivered = Keep(LinesIn(S, 1, 0, pos), S.wf)

\* the stdio read path implements Pipe: sent = the child's well-formed lines, delivered = the read stream
PipeOfStdio == INSTANCE Pipe WITH sent <- Expected(S), delivered <- delivered
ImplementsPipe == PipeOfStdio!Spec
=============================================================================
