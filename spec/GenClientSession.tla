------------------------- MODULE GenClientSession -------------------------
(* Environment choices of ClientSession behaviours (calls begun, server answers, entering and *)
(* leaving the transport context), carried in a history variable kept out of the VIEW; every   *)
(* transition that completes the last call prints its history once.                            *)
EXTENDS ClientSession, Json

VARIABLE hist
H(x) == hist' = Append(hist, x)

GNext ==
  \/ Enter /\ H([a |-> "Enter"])
  \/ Exit /\ H([a |-> "Exit"])
  \/ \E t \in Tasks :
        \/ Begin(t, "initialize", "none") /\ H([a |-> "Begin", t |-> t, kind |-> "initialize", op |-> "none"])
        \/ \E o \in Ops : Begin(t, "op", o) /\ H([a |-> "Begin", t |-> t, kind |-> "op", op |-> o])
        \/ (Check(t) \/ Propose(t) \/ InitProcess(t) \/ OpSend(t) \/ OpProcess(t) \/ Stolen(t)) /\ UNCHANGED hist
        \/ \E x \in Answers : InitReply(t, x) /\ H([a |-> "InitAnswer", t |-> t, x |-> x])
        \/ \E ok \in BOOLEAN : OpReply(t, ok) /\ H([a |-> "OpAnswer", t |-> t, ok |-> ok])

GInit == Init /\ hist = <<>>
GSpec == GInit /\ [][GNext]_<<vars, hist>>
View == vars
AllIdle(p) == \A t \in Tasks : p[t] = "idle"
Emit == (ncalls' = MaxCalls /\ AllIdle(pc') /\ ~AllIdle(pc)) => PrintT(<<"PATH", ToJson([h |-> hist'])>>)
=============================================================================
