----------------------------- MODULE Handshake -----------------------------
(***************************************************************************)
(* Version negotiation (C03 client side, C04 server side and the pairing). *)
(*   client: chuk_mcp/protocol/messages/initialize/send_messages.py        *)
(*           send_initialize / send_initialize_with_client_tracking        *)
(*   server: chuk_mcp/server/protocol_handler.py  _handle_initialize       *)
(*                                                                         *)
(* One action per step of send_initialize: Propose (choose the version,    *)
(* write the request), the server's answer (environment, or the library    *)
(* server in the paired instance), Decide (accept / version mismatch /     *)
(* other failure), SendInitialized, Return (+ version tracking in the      *)
(* client that owns the connection).                                       *)
(***************************************************************************)
EXTENDS Naturals, Sequences, FiniteSets, TLC

CONSTANTS U,             \* version universe (real and invented)
          Batching,      \* versions for which JSON-RPC batching is on (older than 2025-06-18)
          ServerSup,     \* versions the library server supports
          Latest,        \* the server's latest version
          Paired,        \* TRUE: the answer comes from the library server
          EchoAnything   \* deviation: the server echoes whatever was requested

Weird == "draft"                        \* a version string outside the universe
Range(s) == {s[i] : i \in DOMAIN s}
Injective(s) == \A i, j \in DOMAIN s : s[i] = s[j] => i = j
Lists == UNION {{s \in [1..n -> U] : Injective(s)} : n \in 1..Cardinality(U)}

Answers ==
  [k : {"version"}, v : U \cup {Weird}]
  \cup [k : {"malformed"}, why : {"noVersion", "noCapabilities", "notObject"}]
  \cup [k : {"rpcError"}, cls : {"invalidParams", "versionCode", "internal", "other"}, mentions : BOOLEAN]
  \cup [k : {"silence"}]

VARIABLES sup, pref, tracked, proposed, answer, phase, wire, outcome, batching, sessVersion, wireBroken
vars == <<sup, pref, tracked, proposed, answer, phase, wire, outcome, batching, sessVersion, wireBroken>>

NoPref == "none"
NoAnswer == [k |-> "none"]
NoOutcome == [kind |-> "none"]

\* wireBroken: the peer stops reading the client's stream after the initialize request, so the
\* write of notifications/initialized fails
InitWithFault(s, p, t, b) ==
  /\ sup = s /\ pref = p /\ tracked = t /\ wireBroken = b
  /\ proposed = "none" /\ answer = NoAnswer /\ phase = "idle" /\ wire = <<>>
  /\ outcome = NoOutcome /\ batching = "unset" /\ sessVersion = "none"

InitWith(s, p, t) == InitWithFault(s, p, t, FALSE)
Init == \E s \in Lists, p \in U \cup {NoPref, Weird}, t \in BOOLEAN, b \in BOOLEAN : InitWithFault(s, p, t, b)

\* ---- client ----
Proposal == IF pref \in Range(sup) THEN pref ELSE sup[1]

Propose ==
  /\ phase = "idle"
  /\ proposed' = Proposal
  /\ wire' = Append(wire, <<"initialize", Proposal>>)
  /\ phase' = "waiting"
  /\ UNCHANGED <<sup, pref, tracked, answer, outcome, batching, sessVersion, wireBroken>>

\* ---- server (library) ----
ServerAnswerTo(v) == IF EchoAnything THEN v ELSE IF v \in ServerSup THEN v ELSE Latest

\* ---- the answer arrives ----
Answered(a) ==
  /\ phase = "waiting"
  /\ answer' = a
  /\ phase' = "answered"
  /\ sessVersion' = IF Paired THEN a.v ELSE sessVersion
  /\ UNCHANGED <<sup, pref, tracked, proposed, wire, outcome, batching, wireBroken>>

ServerAnswers ==
  IF Paired THEN Answered([k |-> "version", v |-> ServerAnswerTo(proposed)])
            ELSE \E a \in Answers : Answered(a)

FailWith(kind) ==
  /\ outcome' = [kind |-> kind]
  /\ phase' = "failed"
  /\ UNCHANGED <<sup, pref, tracked, proposed, answer, wire, batching, sessVersion, wireBroken>>

Decide ==
  /\ phase = "answered"
  /\ CASE answer.k = "version" /\ answer.v \in Range(sup) ->
            /\ phase' = "accepted"
            /\ UNCHANGED <<sup, pref, tracked, proposed, answer, wire, outcome, batching, sessVersion, wireBroken>>
       [] answer.k = "version" /\ answer.v \notin Range(sup) -> FailWith("VersionMismatch")
       [] answer.k = "rpcError" ->
            \* -32602 mentioning the protocol version is turned into a mismatch; everything
            \* else surfaces as the JSON-RPC error it is
            IF answer.cls = "invalidParams" /\ answer.mentions THEN FailWith("VersionMismatch") ELSE FailWith("JsonRpcError")
       [] answer.k = "malformed" -> FailWith("Exception")
       [] answer.k = "silence" -> FailWith("Timeout")

\* the notification cannot be written: the handshake fails, nothing was sent, nothing is tracked
InitializedWriteFails ==
  /\ phase = "accepted" /\ wireBroken
  /\ FailWith("Exception")

SendInitialized ==
  /\ phase = "accepted" /\ ~wireBroken
  /\ wire' = Append(wire, <<"initialized", "-">>)
  /\ phase' = "notified"
  /\ UNCHANGED <<sup, pref, tracked, proposed, answer, outcome, batching, sessVersion, wireBroken>>

Return ==
  /\ phase = "notified"
  /\ outcome' = [kind |-> "ok", version |-> answer.v]
  /\ batching' = IF tracked THEN (IF answer.v \in Batching THEN "on" ELSE "off") ELSE batching
  /\ phase' = "done"
  /\ UNCHANGED <<sup, pref, tracked, proposed, answer, wire, sessVersion, wireBroken>>

Next == Propose \/ ServerAnswers \/ Decide \/ InitializedWriteFails \/ SendInitialized \/ Return
Spec == Init /\ [][Next]_vars

-----------------------------------------------------------------------------
Count(w, what) == Cardinality({i \in DOMAIN w : w[i][1] = what})
Finished == phase \in {"done", "failed"}

\* C03
ProposalRule == phase # "idle" => proposed = (IF pref \in Range(sup) THEN pref ELSE sup[1])
                                   /\ wire[1] = <<"initialize", proposed>>
SuccessOnlyOffered == outcome.kind = "ok" => answer.k = "version" /\ answer.v \in Range(sup) /\ outcome.version = answer.v
MismatchRaises == Finished /\ answer.k = "version" /\ answer.v \notin Range(sup) => outcome.kind = "VersionMismatch"
NoInitializedUnlessAccepted == Count(wire, "initialized") > 0 => answer.k = "version" /\ answer.v \in Range(sup)
NoInitializedOnFailure == phase = "failed" => Count(wire, "initialized") = 0
ExactlyOneInitialized == outcome.kind = "ok" => Count(wire, "initialized") = 1 /\ wire[Len(wire)][1] = "initialized" /\ Count(wire, "initialize") = 1
BatchingTracksVersion == outcome.kind = "ok" /\ tracked => batching = (IF answer.v \in Batching THEN "on" ELSE "off")
FailureNeverOk == Finished /\ answer.k # "version" => outcome.kind \notin {"ok", "none"}

\* C04 (paired instance: the answer is the library server's)
AnswerSupported == Paired /\ answer.k = "version" => answer.v \in ServerSup
EchoWhenSupported == Paired /\ answer.k = "version" /\ proposed \in ServerSup => answer.v = proposed
SessionCarriesAnswer == Paired /\ answer.k = "version" => sessVersion = answer.v
AgreedOrMismatch ==
  Paired /\ Finished /\ ~wireBroken => \/ outcome.kind = "ok" /\ outcome.version \in Range(sup) \cap ServerSup
                        \/ outcome.kind = "VersionMismatch"
=============================================================================
