--------------------------- MODULE ServerDispatch ---------------------------
(***************************************************************************)
(* Server-side dispatch (C08):                                             *)
(*   chuk_mcp/server/protocol_handler.py  ProtocolHandler.handle_message   *)
(*   chuk_mcp/server/server.py            MCPServer tools/resources handlers*)
(*                                                                         *)
(* handle_message is modelled step by step: Receive -> Lookup -> Invoke -> *)
(* Reply, for a message drawn from                                         *)
(*   kind    request | notification                                        *)
(*   method  class of the method name (core, tool/resource, custom, every  *)
(*           standard notification name, unregistered, random)             *)
(*   params  shape class                                                   *)
(*   id      class                                                         *)
(* The configured server has one tool that returns, one that raises, one   *)
(* that returns nonsense; same for resources and custom methods; a custom  *)
(* handler that returns (None, None).                                      *)
(* Deviation constants describe the tree:                                  *)
(*   NotifErrorCrashes   an error path for an id-less message raises       *)
(*   NonsenseThrough     a handler result that is not (message, sid) is    *)
(*                       handed to the caller as it is                     *)
(*   NoneThrough         a handler's (None, sid) for a REQUEST is handed   *)
(*                       to the caller (pinned by the repository's tests)  *)
(***************************************************************************)
EXTENDS Integers, FiniteSets, TLC

CONSTANTS StdNotifs,           \* the MessageMethod.NOTIFICATION_* names (generated from the tree)
          NotifErrorCrashes, NonsenseThrough, NoneThrough

Kinds == {"request", "notification"}
CoreM == {"initialize", "ping", "toolsList", "resourcesList", "customOk", "customAck", "customStray"}      \* handler returns a response
\* customAck answers whatever it is given, with or without an id (a response object with a null id
\* for a notification); customStray hands a stray non-None object back for an id-less message
ToolM == {"toolsCallOk", "toolsCallRaises", "toolsCallKeyError", "toolsCallNonsense", "toolsCallUnknown", "toolsCallUnhashable"}
ResM  == {"resReadOk", "resReadRaises", "resReadKeyError", "resReadUnknown"}
CustM == {"customRaises", "customKeyError", "customNonsense", "customNone"}
Unreg == {"unregistered", "random"}
\* standard notification names that the configured server registers:
\* initialized (core, returns (None,None)), roots/list_changed (handler raises), message (handler answers)
RegNotifs == {"notifications/initialized", "notifications/roots/list_changed", "notifications/message"}
Methods == CoreM \cup ToolM \cup ResM \cup CustM \cup Unreg \cup StdNotifs
PShapes == {"absent", "null", "ok", "wrongTypes", "argsNull", "argsList", "empty"}
IdClasses == {"int0", "intNeg", "intPos", "intBig", "strEmpty", "strDigit", "strText"}

Registered(m) == m \in CoreM \cup ToolM \cup ResM \cup CustM \cup (StdNotifs \cap RegNotifs)

\* what the invoked handler does, as a function of method class and params shape:
\*   "resp"      returns (response with the request's id, sid)
\*   "err2"/"err3" returns an error response -32602 / -32603 built by the handler itself
\*   "raise"     raises
\*   "nonsense"  returns something that is not a pair
\*   "none"      returns (None, None)
NameKnown(m, p) == p \in {"ok", "argsNull", "argsList"}
Handler(m, p, k) ==
  IF m \in {"customAck", "customStray"} THEN "resp"
  ELSE IF k = "notification" /\ m \in {"ping", "initialize", "toolsList", "resourcesList", "customOk", "notifications/message"} \cup ToolM \cup ResM
    THEN "raise"          \* building a response (or reading message.id) without an id fails inside the handler
  ELSE IF m \in {"initialize", "ping", "toolsList", "resourcesList", "customOk", "notifications/message"} THEN "resp"
  ELSE IF m \in ToolM THEN
       IF ~NameKnown(m, p) THEN "err2"                           \* name missing / wrong type: unknown tool
       ELSE IF m = "toolsCallUnknown" THEN "err2"
       ELSE IF m = "toolsCallUnhashable" THEN "raise"            \* `name in dict` with a list
       ELSE IF p \in {"argsNull", "argsList"} THEN "err3"        \* handler(**arguments) fails, caught by the tool wrapper
       ELSE IF m \in {"toolsCallRaises", "toolsCallKeyError"} THEN "err3"
       ELSE "resp"                                               \* ok and nonsense (str()-formatted)
  ELSE IF m \in ResM THEN
       IF p = "wrongTypes" THEN "raise"                          \* uri is a list: unhashable
       ELSE IF p \in {"absent", "null", "empty"} THEN "err2"
       ELSE IF m = "resReadUnknown" THEN "err2"
       ELSE IF m \in {"resReadRaises", "resReadKeyError"} THEN "err3"
       ELSE "resp"
  ELSE IF m \in {"customRaises", "customKeyError", "notifications/roots/list_changed"} THEN "raise"
  ELSE IF m = "customNonsense" THEN "nonsense"
  ELSE "none"                                                    \* customNone, notifications/initialized

VARIABLES msg, pc, out
vars == <<msg, pc, out>>

None == [shape |-> "pending"]
Resp(code) == [shape |-> "response", idok |-> TRUE, iserr |-> code # 0, code |-> code]
NoResp == [shape |-> "none"]
Raised == [shape |-> "raised"]
Nonsense == [shape |-> "nonsense"]

Init ==
  /\ msg \in [kind : Kinds, m : Methods, p : PShapes, idc : IdClasses]
  /\ pc = "receive" /\ out = None

IsNotif == msg.kind = "notification"
\* create_error_response(None, ...) : the typed error class refuses a null id
ErrorReply(code) == IF IsNotif THEN (IF NotifErrorCrashes THEN Raised ELSE NoResp) ELSE Resp(code)

Lookup ==
  /\ pc = "receive"
  /\ IF Registered(msg.m)
     THEN pc' = "invoke" /\ UNCHANGED out
     ELSE pc' = "done" /\ out' = ErrorReply(32601)
  /\ UNCHANGED msg

Invoke ==
  /\ pc = "invoke" /\ pc' = "done" /\ UNCHANGED msg
  /\ LET h == Handler(msg.m, msg.p, msg.kind) IN
     out' = CASE h = "resp" -> IF IsNotif THEN NoResp ELSE Resp(0)
              [] h = "err2" -> IF IsNotif THEN NoResp ELSE Resp(32602)
              [] h = "err3" -> IF IsNotif THEN NoResp ELSE Resp(32603)
              [] h = "raise" -> ErrorReply(32603)
              [] h = "nonsense" -> IF NonsenseThrough THEN Nonsense ELSE ErrorReply(32603)
              [] h = "none" -> IF IsNotif \/ NoneThrough THEN NoResp ELSE ErrorReply(32603)

Next == Lookup \/ Invoke
Spec == Init /\ [][Next]_vars

-----------------------------------------------------------------------------
Done == pc = "done"
\* never a crash
NeverRaises == Done => out.shape # "raised"
\* every request gets exactly one response carrying its id
OneResponsePerRequest == Done /\ msg.kind = "request" => out.shape = "response" /\ out.idok
\* no notification gets one, registered or not, failing or not
NoResponsePerNotification == Done /\ IsNotif => out.shape = "none"
\* the statement's code table
CodeTable ==
  Done /\ msg.kind = "request" /\ out.shape = "response" =>
    /\ (~Registered(msg.m) => out.iserr /\ out.code = 32601)
    /\ (msg.m \in {"customRaises", "customKeyError", "notifications/roots/list_changed"} => out.iserr /\ out.code = 32603)
    /\ (msg.m \in {"toolsCallRaises", "toolsCallKeyError"} /\ msg.p = "ok" => out.iserr /\ out.code = 32603)
    /\ (msg.m \in {"resReadRaises", "resReadKeyError"} /\ msg.p = "ok" => out.iserr /\ out.code = 32603)
    /\ (msg.m = "toolsCallUnknown" /\ NameKnown(msg.m, msg.p) => out.iserr /\ out.code = 32602)
    /\ (msg.m = "resReadUnknown" /\ msg.p \in {"ok", "argsNull", "argsList"} => out.iserr /\ out.code = 32602)
    /\ (msg.m \in {"ping", "toolsList", "resourcesList", "customOk", "customAck", "customStray"} => ~out.iserr)
    /\ (msg.m \in {"toolsCallOk", "resReadOk"} /\ msg.p = "ok" => ~out.iserr)          \* a handler that returns is answered with a result
=============================================================================
